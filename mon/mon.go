// Package mon holds the boundary monitors: the harness owns every io.Writer
// and ByteRuneReader handed to the library, so it sees every call.
package mon

import (
	"bytes"
	"errors"
	"io"
	"runtime"
	"syscall"
	"unicode/utf8"
)

// ---------------------------------------------------------------- writer

type FaultKind int

const (
	FaultNone        FaultKind = iota
	FaultOnce                  // k-th Write returns (0, ErrInjected); later writes succeed
	FaultFrom                  // k-th and every later Write returns (0, ErrInjected)
	FaultShortErr              // k-th Write accepts len-1 bytes and returns io.ErrShortWrite
	FaultShortNil              // k-th Write accepts len-1 bytes and returns nil error
	FaultOnceDrop              // like FaultOnce
	FaultFullErrOnce           // k-th Write takes ALL the bytes and still returns ErrInjected (a tee, a quota layer, a deferred failure); later writes succeed
	FaultFullErrFrom           // the same from the k-th Write on
)

var FaultNames = map[FaultKind]string{FaultNone: "none", FaultOnce: "err-once", FaultFrom: "err-from", FaultShortErr: "short-err", FaultShortNil: "short-nil", FaultFullErrOnce: "full-count-err-once", FaultFullErrFrom: "full-count-err-from"}

var ErrInjected = errors.New("verif: injected write failure")

// ErrInjectedTemporary is a failure of the retryable kind (a deadline, EAGAIN): Timeout() and Temporary()
// report true, as os.ErrDeadlineExceeded and net timeouts do. It is a failed write all the same.
var ErrInjectedTemporary error = temporaryError{}

type temporaryError struct{}

func (temporaryError) Error() string   { return "verif: injected write failure (i/o timeout)" }
func (temporaryError) Timeout() bool   { return true }
func (temporaryError) Temporary() bool { return true }

// CountingWriter records every Write call and can inject one fault.
type CountingWriter struct {
	Buf    bytes.Buffer
	Calls  int
	Lens   []int // length of each Write (kept when KeepLens)
	Keep   bool
	Kind   FaultKind
	K      int // 1-based index of the faulty call
	Fired  bool
	Missed int // bytes that did not reach the buffer
	// TempErr: the injected error is ErrInjectedTemporary instead of ErrInjected
	TempErr bool
	// GCEvery > 0: run a garbage collection on every GCEvery-th Write (an encoder that only
	// remembers ADDRESSES of temporaries is exposed when the collector recycles them mid-encode)
	GCEvery int
}

func (w *CountingWriter) Reset() {
	w.Buf.Reset()
	w.Calls = 0
	w.Lens = w.Lens[:0]
	w.Fired = false
	w.Missed = 0
}

func (w *CountingWriter) injected() error {
	if w.TempErr {
		return ErrInjectedTemporary
	}
	return ErrInjected
}

// RichWriter is a CountingWriter that also offers WriteByte and WriteString, as *bufio.Writer and
// *bytes.Buffer do; each is one counted (and faultable) write call.
type RichWriter struct{ *CountingWriter }

func (w RichWriter) WriteByte(c byte) error {
	n, err := w.CountingWriter.Write([]byte{c})
	if err == nil && n != 1 {
		err = io.ErrShortWrite
	}
	return err
}

func (w RichWriter) WriteString(s string) (int, error) { return w.CountingWriter.Write([]byte(s)) }

func (w *CountingWriter) Write(p []byte) (int, error) {
	w.Calls++
	if w.GCEvery > 0 && w.Calls%w.GCEvery == 0 {
		runtime.GC()
	}
	if w.Keep {
		w.Lens = append(w.Lens, len(p))
	}
	if w.Kind != FaultNone && w.Calls >= w.K {
		switch w.Kind {
		case FaultOnce:
			if w.Calls == w.K {
				w.Fired = true
				w.Missed += len(p)
				return 0, w.injected()
			}
		case FaultFrom:
			w.Fired = true
			w.Missed += len(p)
			return 0, w.injected()
		case FaultFullErrOnce, FaultFullErrFrom:
			if w.Calls == w.K || w.Kind == FaultFullErrFrom {
				w.Fired = true
				w.Buf.Write(p)
				return len(p), w.injected()
			}
		case FaultShortErr, FaultShortNil:
			if w.Calls == w.K {
				w.Fired = true
				n := len(p) - 1
				if n < 0 {
					n = 0
				}
				w.Buf.Write(p[:n])
				w.Missed += len(p) - n
				if w.Kind == FaultShortErr {
					return n, io.ErrShortWrite
				}
				return n, nil
			}
		}
	}
	return w.Buf.Write(p)
}

// ---------------------------------------------------------------- reader

// BudgetExceeded is the sentinel panic raised by MeteredReader.
type BudgetExceeded struct{ Calls int }

// MeteredReader implements Read + ReadRune over a byte slice with no
// read-ahead: Off is exactly the number of bytes the library has consumed.
type MeteredReader struct {
	B        []byte
	Off      int
	Calls    int
	Budget   int // 0 = unlimited; exceeding it panics with BudgetExceeded
	AfterEOF int
	// Chunk > 0: a Read delivers at most Chunk bytes (io.Reader allows short reads: a
	// network stream or a bufio buffer boundary does exactly that)
	Chunk int
	// EOFWithData: the Read that delivers the last byte also returns io.EOF (legal for an
	// io.Reader; iotest.DataErrReader and many network readers behave like this)
	EOFWithData bool
}

func NewReader(b []byte) *MeteredReader { return &MeteredReader{B: b} }

func (r *MeteredReader) tick() {
	r.Calls++
	if r.Budget > 0 && r.Calls > r.Budget {
		panic(BudgetExceeded{r.Calls})
	}
}

func (r *MeteredReader) Read(p []byte) (int, error) {
	r.tick()
	if len(p) == 0 {
		return 0, nil
	}
	if r.Off >= len(r.B) {
		r.AfterEOF++
		return 0, io.EOF
	}
	if r.Chunk > 0 && len(p) > r.Chunk {
		p = p[:r.Chunk]
	}
	n := copy(p, r.B[r.Off:])
	r.Off += n
	if r.EOFWithData && r.Off >= len(r.B) {
		return n, io.EOF
	}
	return n, nil
}

// Len reports the unread octets, as *bytes.Reader, *bytes.Buffer and *strings.Reader do (a decoder that
// looks for it finds what it finds on those)
func (r *MeteredReader) Len() int { return len(r.B) - r.Off }

func (r *MeteredReader) ReadRune() (rune, int, error) {
	r.tick()
	if r.Off >= len(r.B) {
		r.AfterEOF++
		return 0, 0, io.EOF
	}
	c, sz := utf8.DecodeRune(r.B[r.Off:])
	r.Off += sz
	return c, sz, nil
}

// ---------------------------------------------------------------- meters

// AllocDelta runs f on the calling goroutine and returns the bytes allocated meanwhile
// (process-wide TotalAlloc: callers run it single-threaded).
func AllocDelta(f func()) uint64 {
	var a, b runtime.MemStats
	runtime.ReadMemStats(&a)
	f()
	runtime.ReadMemStats(&b)
	return b.TotalAlloc - a.TotalAlloc
}

// CPUSeconds returns user+system CPU seconds consumed by the process so far.
func CPUSeconds() float64 {
	var ru syscall.Rusage
	if err := syscall.Getrusage(syscall.RUSAGE_SELF, &ru); err != nil {
		return 0
	}
	return float64(ru.Utime.Sec) + float64(ru.Utime.Usec)/1e6 + float64(ru.Stime.Sec) + float64(ru.Stime.Usec)/1e6
}

// ThreadCPUSeconds returns CPU seconds of the calling thread (use with runtime.LockOSThread).
func ThreadCPUSeconds() float64 {
	var ru syscall.Rusage
	const rusageThread = 1
	if err := syscall.Getrusage(rusageThread, &ru); err != nil {
		return 0
	}
	return float64(ru.Utime.Sec) + float64(ru.Utime.Usec)/1e6 + float64(ru.Stime.Sec) + float64(ru.Stime.Usec)/1e6
}
