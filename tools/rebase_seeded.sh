#!/bin/bash
# tools/rebase_seeded.sh <patch.diff> <demo_test.go> <out.diff> : re-base a seeded patch onto /repo HEAD in the scratch worktree /tmp/sb/C01
# (git apply --3way; stops with CONFLICT when hunks need a hand), then re-verify: builds, suite green, demo fails.
export GOFLAGS=-mod=mod GOPROXY=off GOSUMDB=off GOTOOLCHAIN=local
W=/tmp/sb/RB; H=$(git -C /repo rev-parse HEAD)
cd $W || exit 2
git checkout -q -f --detach $H; git clean -fdq
if ! git apply --3way "$1" >/tmp/ev/rebase.log 2>&1; then
  if [ -z "$(git diff --name-only --diff-filter=U)" ]; then echo "FAILED (no 3-way possible): $(tail -1 /tmp/ev/rebase.log)"; exit 1; fi
  echo "CONFLICT in $(git diff --name-only --diff-filter=U | tr '\n' ' ')"; exit 3
fi
git reset -q
go build ./... >/tmp/ev/rebase.build.log 2>&1 || { echo "BUILD-FAILS"; exit 4; }
go test -vet=off -count=1 ./... >/tmp/ev/rebase.suite.log 2>&1 || { echo "SUITE-FAILS"; exit 5; }
cp "$2" ./zz_demo_test.go
if go test -vet=off -count=1 . >/tmp/ev/rebase.demo.log 2>&1; then rm -f zz_demo_test.go; echo "DEMO-PASSES(!)"; exit 6; fi
rm -f zz_demo_test.go
git diff HEAD > "$3"
git checkout -q -f $H; git clean -fdq
echo OK
