#!/bin/bash
# tools/eval_seeded.sh <PROP> <K> <outdir-with-patchK.diff/demoK_test.go> [checks...]
# Confirms a seeded break (applies, builds, suite green, demo fails with / passes without) and runs checks against it.
export GOFLAGS=-mod=mod GOPROXY=off GOSUMDB=off GOTOOLCHAIN=local
P=$1; K=$2; OUT=$3; shift 3
CHECKS="$@"; [ -z "$CHECKS" ] && CHECKS="$P"
S=/tmp/ev/$P-$K
rm -rf $S; mkdir -p /tmp/ev
# the scratch copy is /repo's HEAD (not its working tree: tools/confirm_seeded.sh may have a patch applied there)
if [ -n "$EVAL_BASE" ]; then cp -r $EVAL_BASE $S; rm -rf $S/.git; else mkdir -p $S; git -C /repo archive HEAD | tar -x -C $S; fi
cd $S || exit 2
R="$P-$K:"
cp $OUT/demo${K}_test.go . 2>/dev/null
if go test -vet=off -count=1 . >/tmp/ev/$P-$K.clean.log 2>&1; then R="$R clean+demo=pass"; else R="$R clean+demo=FAIL"; fi
rm -f demo${K}_test.go
if ! patch -p1 -s < $OUT/patch$K.diff >/tmp/ev/$P-$K.patch.log 2>&1; then echo "$R patch-does-not-apply"; exit 1; fi
if ! go build ./... >/tmp/ev/$P-$K.build.log 2>&1; then echo "$R build-fails"; exit 1; fi
if go test -vet=off -count=1 ./... >/tmp/ev/$P-$K.suite.log 2>&1; then R="$R suite=pass"; else R="$R suite=FAIL"; fi
cp $OUT/demo${K}_test.go .
if go test -vet=off -count=1 . >/tmp/ev/$P-$K.demo.log 2>&1; then R="$R patched+demo=pass(!)"; else R="$R patched+demo=fail"; fi
rm -f demo${K}_test.go
cd /verif
for c in $CHECKS; do
  VERIF_REPO=$S timeout 1200 ./check $c quick > /tmp/ev/$P-$K.$c.quick.log 2>&1; e=$?
  R="$R | $c quick exit=$e"
  if [ $e -eq 0 ] && [ -z "${EVAL_QUICK_ONLY:-}" ]; then
    VERIF_NO_COVER=1 VERIF_REPO=$S timeout 3000 ./check $c thorough > /tmp/ev/$P-$K.$c.thorough.log 2>&1; e=$?
    R="$R thorough exit=$e"
  fi
done
echo "$R" | tee -a /tmp/ev/results.txt
rm -rf $S
