#!/usr/bin/env python3
import json,sys,collections,re
f=sys.argv[1]
g=collections.OrderedDict()
for l in open(f):
    v=json.loads(l)
    if v.get('kf'): continue
    t=[x for x in v.get('features') or [] if x.startswith('type=')]
    key=(v['class'], t[0] if t else '')
    g.setdefault(key,[]).append(v)
for (c,t),vs in sorted(g.items(), key=lambda kv:(kv[0][1],kv[0][0])):
    feats=collections.Counter()
    for v in vs:
        for x in v.get('features') or []:
            if not x.startswith(('type=','tag=','top=','len=')): feats[x]+=1
    common=[k for k,n in feats.items() if n==len(vs)]
    d=re.sub(r'\s+',' ',vs[0]['detail'])[:230]
    print(f"{len(vs):5d} {t:28s} {c:22s} always={common}\n        {d}")
