#!/bin/bash
# Applies every kept seeded break to /repo itself (git apply), runs the detecting check, and undoes it
# (git checkout -- .), as prescribed. Writes seeded/RESULTS.txt. Nothing else may use /repo meanwhile.
cd /verif || exit 2
out=seeded/RESULTS.txt; : > $out
trap 'git -C /repo checkout -- . ; git -C /repo clean -fdq' EXIT
for d in seeded/SB*-C*; do
  id=$(basename $d)
  chk=$(python3 -c "import json;m=json.load(open('$d/meta.json'));print((m['detected_by'] or {}).get('check') or m['property'])")
  tier=$(python3 -c "import json;m=json.load(open('$d/meta.json'));print((m['detected_by'] or {}).get('tier') or 'quick')")
  if ! git -C /repo apply $PWD/$d/patch.diff; then echo "$id patch-does-not-apply" >> $out; continue; fi
  VERIF_NO_COVER=1 timeout 1500 ./check $chk $tier > /tmp/confirm.$id.log 2>&1; e=$?
  first=$(grep -A1 '^VIOLATION' /tmp/confirm.$id.log | sed -n 2p | cut -c1-160)
  echo "$id check=$chk tier=$tier exit=$e violations=$(grep -c '^VIOLATION' /tmp/confirm.$id.log) |$first" >> $out
  git -C /repo checkout -- .
done
git -C /repo status --short >> $out
echo CONFIRM-DONE >> $out
