#!/bin/bash
# Applies every kept seeded break to /repo itself (git apply), runs the detecting check, and undoes it
# (git checkout -- .), as prescribed. Writes seeded/RESULTS.txt. Nothing else may use /repo meanwhile.
cd /verif || exit 2
# CONFIRM_ONLY="id id ..." re-runs only those and merges their lines into the existing RESULTS.txt.
final=seeded/RESULTS.txt; out=$final
if [ -n "$CONFIRM_ONLY" ]; then out=/tmp/confirm.partial.txt; fi
: > $out
trap 'git -C /repo checkout -- . ; git -C /repo clean -fdq' EXIT
for d in seeded/SB*-C*; do
  id=$(basename $d)
  if [ -n "$CONFIRM_ONLY" ] && ! echo " $CONFIRM_ONLY " | grep -q " $id "; then continue; fi
  chk=$(python3 -c "import json;m=json.load(open('$d/meta.json'));print((m['detected_by'] or {}).get('check') or m['property'])")
  tier=$(python3 -c "import json;m=json.load(open('$d/meta.json'));print((m['detected_by'] or {}).get('tier') or 'quick')")
  if ! git -C /repo apply $PWD/$d/patch.diff; then echo "$id patch-does-not-apply" >> $out; continue; fi
  VERIF_NO_COVER=1 timeout 1500 ./check $chk $tier > /tmp/confirm.$id.log 2>&1; e=$?
  first=$(grep -A1 '^VIOLATION' /tmp/confirm.$id.log | sed -n 2p | cut -c1-160)
  echo "$id check=$chk tier=$tier exit=$e violations=$(grep -c '^VIOLATION' /tmp/confirm.$id.log) |$first" >> $out
  git -C /repo checkout -- .
done
git -C /repo status --short >> $out
if [ -n "$CONFIRM_ONLY" ]; then
  python3 - "$final" "$out" <<'PY'
import sys,re
final,part=sys.argv[1],sys.argv[2]
def key(l):
    m=re.match(r'(SB\d*)-C(\d+)-(\d+)',l); return (int(m.group(1)[2:] or 1),int(m.group(2)),int(m.group(3)))
lines={}
for f in (final,part):
    for l in open(f, errors="replace"):
        if l.startswith('SB'): lines[l.split()[0]]=l
open(final,'w').write(''.join(sorted(lines.values(),key=key)))
PY
  out=$final
fi
echo CONFIRM-DONE >> $out
