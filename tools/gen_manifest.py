#!/usr/bin/env python3
"""Regenerates MANIFEST.json from the table below (kept in one place so the manifest stays valid)."""
import json, os, subprocess
HERE = os.path.dirname(os.path.dirname(os.path.abspath(__file__)))
BASE_OFF = "cd /repo && GOFLAGS=-mod=mod GOPROXY=off GOSUMDB=off GOTOOLCHAIN=local go test -json -vet=off -count=1 -timeout 25m ./..."

CHECKS = {
 "C07": dict(level="exploration", tech="runtime monitoring: boundary monitor (counting writer / metered reader) + independent shortest-form table + reference decoder; exhaustive int32 sweep",
   text="Every int32 (thorough: all 2^32, quick: windows at every form boundary and seeded windows) and boundary/sampled int64 values are executed through the real streaming and one-shot entry points; an oracle independent of the library (the document's form tables, the reference decoder) judges value, framing and form of each observed execution. Go-kind conversions are exercised at four positions including values outside the wire type.",
   note="Trusted: hspec form tables and reference decoder (self-tested against the published examples at the start of every run); int64 is sampled, not enumerated.", ref="DESIGN.md 4 C07"),
 "C08": dict(level="exploration", tech="runtime monitoring: boundary monitor + independent shortest-exact-form oracle + reference decoder; exhaustive float32-pattern sweep",
   text="All float32 bit patterns widened to float64 (thorough), all integers in [-70000,70000], every power of two with neighbours, subnormals/inf/NaN and random 64-bit patterns are round-tripped through the real entry points; decoded value, consumed bytes and emitted form are judged by an independent table.",
   note="Trusted: hspec; NaN may use 5 or 9 octets and -0 1 or 5 (statement silent).", ref="DESIGN.md 4 C08"),
 "C09": dict(level="exploration", tech="runtime monitoring: round-trip oracle on content + reference decoder checking chunk lengths/UTF-8 validity of every emitted chunk",
   text="Strings and byte slices of every length class (thorough: every length 0..3*chunk+40) in five content classes, wide code points at every offset around chunk boundaries, five container positions and large random contents are executed through ExtractTypeNameMap/ToBytes/ToObject; content equality and the wire-level chunk invariants are checked on every execution.",
   note="Trusted: hspec string model (length = code points, each chunk valid UTF-8).", ref="DESIGN.md 4 C09"),
 "C10": dict(level="exploration", tech="runtime monitoring: round-trip oracle with integer (sec,nsec) arithmetic over boundary table and uniform samples",
   text="Boundary instants and uniformly random instants over years 1..9999 (whole-millisecond and finer) at four positions are round-tripped through the real API; the decoded instant is compared with integer arithmetic that cannot overflow.",
   note="Trusted: Go time package; the wire unit of the compact form is C02's business.", ref="DESIGN.md 4 C10"),
}
ALL = ["C%02d" % i for i in range(1, 18)]
NOT_YET = "check not built yet in this round (runtime-monitoring design exists in DESIGN.md; will be claimed when its monitor runs clean)"

def main():
    checks = []
    for pid in ALL:
        if pid not in CHECKS: continue
        c = CHECKS[pid]
        checks.append({
            "property_id": pid,
            "quick_cmd": "./check %s quick" % pid,
            "thorough_cmd": "./check %s thorough" % pid,
            "evidence_file": "/verif/evidence/%s.json" % pid,
            "replay_cmd_template": "./check %s --replay {path}" % pid,
            "engine": "vcheck",
            "level_claimed": {"category": c["level"], "text": c["text"], "design_ref": c["ref"]},
            "level_note": c["note"],
            "technique": c["tech"],
        })
    m = {
        "version": 1,
        "setup_cmd": "./check setup",
        "hooks": {
            "guard": "verif",
            "enable": "go build -tags verif (workers are always built with the tag; no hook is currently needed: every observation is made at the API boundary)",
            "baseline_off_cmd": BASE_OFF,
            "source_commits": [],
            "add_only": True,
        },
        "engines": [
            {"name": "vcheck", "path": "cmd/vcheck", "serves_properties": sorted(CHECKS), "kind_free_text": "parent driver + child workers (journal, fatal-death recovery), boundary monitors (mon/), reference Hessian 2.0 model (hspec/), type zoo with Denote/Equiv (zoo/)"},
        ],
        "checks": checks,
        "notes": "Runtime monitoring only: every verdict is an oracle observing executions of the real code built from /repo's working tree. See DESIGN.md.",
        "not_applicable": [{"property_id": p, "reason": NOT_YET} for p in ALL if p not in CHECKS],
    }
    with open(os.path.join(HERE, "MANIFEST.json"), "w") as f:
        json.dump(m, f, indent=1)
        f.write("\n")

if __name__ == "__main__":
    main()
