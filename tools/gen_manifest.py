#!/usr/bin/env python3
"""Regenerates MANIFEST.json from the table below (kept in one place so the manifest stays valid)."""
import json, os, subprocess
HERE = os.path.dirname(os.path.dirname(os.path.abspath(__file__)))
BASE_OFF = "cd /repo && GOFLAGS=-mod=mod GOPROXY=off GOSUMDB=off GOTOOLCHAIN=local go test -json -vet=off -count=1 -timeout 25m ./..."

CHECKS = {
 "C01": dict(level="exploration", tech="runtime monitoring: round-trip oracle (zoo.Equiv, documented normalisations only) over a seeded/boundary type zoo, child processes with journal",
   text="Every zoo type (scalars, one struct per slice element kind and map shape, embedded, custom-named, recursive, 24-class Bag, top-level slices/maps/scalars) is driven through ExtractTypeNameMap/ToBytes/ToObject and Serializer.ToBytes/ToObject with zero values, seeded values, every table length (thorough: every length 0..600 plus 1023..2100) and 1..25 classes per message; each execution is judged by an independent comparator.",
   note="Trusted: zoo.Equiv / zoo generators. Shapes listed by open known findings (top-level unnamed maps, []T together with []*T) are kept out of the main stream and replayed from committed witnesses.", ref="DESIGN.md 4 C01"),
 "C02": dict(level="exploration", tech="runtime monitoring: every emitted byte stream parsed by an independent reference decoder (hspec) and compared with the intended abstract value by bisimulation + identity on struct pointers",
   text="The bytes of ToBytes and Encoder.WriteObject for every generated zoo value are parsed by a strict grammar-derived decoder (no bytes missing or left over) and compared with zoo.Denote: class names, lower-cased field names in order, definition before use and index, registered list type name, true element count, ref ordinals.",
   note="Trusted: hspec (self-tested on the published examples and Java-produced bytes at the start of every run) and zoo.Denote. The oracle is the published document, not a Java implementation's deviations.", ref="DESIGN.md 4 C02"),
 "C03": dict(level="exploration", tech="runtime monitoring: reference encoder enumerating/sampling every legal rendering (choice stream) + differential oracle against the original Go value",
   text="For abstract values denoting generated Go values the reference encoder produces every legal rendering when the choice space has <= 4096 points (else seeded vectors + the all-maximal one) and every published example verbatim; each rendering is decoded through ToObject and Decoder.ReadObject and must equal the original (value, sharing, framing).",
   note="Trusted: hspec reference encoder (refdec(refenc(A,c)) == A self-test). Type strings are never added or dropped (they are part of the value).", ref="DESIGN.md 4 C03"),
 "C04": dict(level="exploration", tech="runtime monitoring: exhaustive small pointer graphs + random graphs, wire-level ref-ordinal oracle (reference decoder) and pointer-identity oracle on the decoded graph",
   text="Every edge assignment of 1..3 (thorough: 1..4) two-slot nodes x 9 fillers in front of the shared pointers, wrapped in a holder with probe references, plus random graphs to 200 nodes and shared slices/maps, is encoded; refs on the wire must resolve (document numbering) to the intended nodes, the decoded graph must have the same sharing partition, and the reference encoder's rendering must decode to the same graph; encoding must finish within a CPU budget.",
   note="Trusted: hspec, zoo.SameSharing. 'Object' identity = struct reached through a pointer; slices and maps have value semantics. Termination restated as bounded progress (5 CPU-s, 64 MiB stack).", ref="DESIGN.md 4 C04"),
 "C05": dict(level="exploration", tech="runtime monitoring: reference-encoded class definitions (permuted / dropped / extra fields, table positions 0..40) decoded by the real decoder, expected value computed by the harness",
   text="All 120 permutations and all 32 subsets of a 5-field definition, every extra-field kind at every insertion point, positions 0..40 reached by earlier stream values / enclosing list / hoisted definitions, short and long instance forms, and seeded combinations are decoded; the result must equal the by-name expectation and consume the stream exactly.",
   note="Trusted: hspec reference encoder; the harness verifies each built stream with the reference decoder before use.", ref="DESIGN.md 4 C05"),
 "C06": dict(level="exploration", tech="runtime monitoring: offline checker over recorded write/read histories (counting writer offsets vs metered reader without read-ahead vs reference framing)",
   text="Histories of 1..50 mixed values on one stream through the encoder/serializer streaming entry points (also crossed) are read back; per read the checker demands value equivalence, exact cumulative byte consumption, identity of re-sent pointers and absence of internal carrier types. Thorough adds all histories of length <= 3 over a 12-value alphabet.",
   note="Trusted: mon.MeteredReader (no read-ahead), hspec framing. Maps per history are merged from its own values (wire-name collisions excluded).", ref="DESIGN.md 4 C06"),
 "C07": dict(level="exploration", tech="runtime monitoring: boundary monitor (counting writer / metered reader) + independent shortest-form table + reference decoder; exhaustive int32 sweep",
   text="Every int32 (thorough: all 2^32, quick: windows at every form boundary and seeded windows) and boundary/sampled int64 values are executed through the real streaming and one-shot entry points; an oracle independent of the library (the document's form tables, the reference decoder) judges value, framing and form of each observed execution. Go-kind conversions are exercised at four positions including values outside the wire type.",
   note="Trusted: hspec form tables and reference decoder (self-tested against the published examples at the start of every run); int64 is sampled, not enumerated.", ref="DESIGN.md 4 C07"),
 "C08": dict(level="exploration", tech="runtime monitoring: boundary monitor + independent shortest-exact-form oracle + reference decoder; exhaustive float32-pattern sweep",
   text="All float32 bit patterns widened to float64 (thorough), all integers in [-70000,70000], every power of two with neighbours, subnormals/inf/NaN and random 64-bit patterns are round-tripped through the real entry points; decoded value, consumed bytes and emitted form are judged by an independent table.",
   note="Trusted: hspec; NaN may use 5 or 9 octets and -0 1 or 5 (statement silent).", ref="DESIGN.md 4 C08"),
 "C09": dict(level="exploration", tech="runtime monitoring: round-trip oracle on content + reference decoder checking chunk lengths/UTF-8 validity of every emitted chunk",
   text="Strings and byte slices of every length class (thorough: every length 0..3*chunk+40) in five content classes, wide code points at every offset around chunk boundaries, five container positions and large random contents are executed through ExtractTypeNameMap/ToBytes/ToObject; content equality and the wire-level chunk invariants are checked on every execution.",
   note="Trusted: hspec string model (length = code points, each chunk valid UTF-8).", ref="DESIGN.md 4 C09"),
 "C10": dict(level="exploration", tech="runtime monitoring: round-trip oracle with integer (sec,nsec) arithmetic over boundary table and uniform samples",
   text="Boundary instants and uniformly random instants over years 1..9999 (whole-millisecond and finer) at four positions are round-tripped through the real API; the decoded instant is compared with integer arithmetic that cannot overflow.",
   note="Trusted: Go time package; the wire unit of the compact form is C02's business.", ref="DESIGN.md 4 C10"),
 "C11": dict(level="exploration", tech="runtime monitoring: differential oracle (used instance vs freshly constructed instance) with table-sensitive probes + before/after snapshots of inputs and caller maps",
   text="All histories up to length 2 (thorough 3) over 7 operation kinds and seeded histories to length 30 are applied to one Encoder/Decoder/Serializer/pooled instance, then encode probes (re-sending earlier pointers and classes) and reference-encoded decode probes (class/type/ref index 0) are compared with a fresh instance; every call is bracketed by deep snapshots of its inputs and of the complete name/type maps.",
   note="Trusted: the fresh instance is the model; errors compared by presence and address-masked message.", ref="DESIGN.md 4 C11"),
 "C12": dict(level="exploration", tech="Go race detector (-race worker, reports counted from the log) + differential oracle: concurrent result vs result of the same call run alone",
   text="N in {2,4,16,64} goroutines x GOMAXPROCS {2,4,16}, each with its own instance (constructed or pooled) over the same complete maps and the same read-only inputs, replay a corpus whose expected result classes were obtained sequentially; mismatches, race reports with a library frame, runtime aborts and writes to the shared maps are violations. Evidence records how many calls really overlapped.",
   note="The static clause (no write to package-level state on ANY path) is outside runtime monitoring; only driven paths are decided. A race report without a library frame is a harness bug (reported as such).", ref="DESIGN.md 4 C12"),
 "C13": dict(level="exploration", tech="runtime monitoring: error-presence oracle over unsupported kinds substituted at every position class, sibling values checked by the C02 wire oracle",
   text="16 unsupported kinds x 15 position classes x 3 entry points plus typed containers of unsupported elements: the encode call must return an error without panicking; when it (wrongly) succeeds the bytes are parsed by the reference decoder to document what was emitted; the sibling with the bad sub-value replaced must encode to well-formed bytes denoting it.",
   note="Trusted: hspec for the sibling half.", ref="DESIGN.md 4 C13"),
 "C14": dict(level="exploration", tech="runtime monitoring in sandboxed child processes (RLIMIT_AS, journal, fatal-death recovery) with allocation / reader-call / CPU meters; structure-aware mutation driven by the reference decoder's annotations",
   text="Random byte strings to 64 KiB, every prefix of valid messages of every zoo shape, annotation-driven mutations (tag, index, length, count, type-name, sub-value delete/duplicate/transpose, byte edits), crafted declared-length attacks, against complete / empty / one-missing / adversarial type maps through seven decode entry points; each call must return without panic or process death within allocation, reader-call and CPU budgets proportional to the input.",
   note="Budgets: alloc <= 1 MiB + 4096*len, reader calls <= 4096 + 64*len, CPU <= 20 s; stack proportional to nesting depth is allowed. The parent watchdog yields inconclusive, never a verdict.", ref="DESIGN.md 4 C14"),
 "C15": dict(level="fault_enumeration", tech="fault injection at the caller-owned io.Writer: every write index k of every encode call x 4 fault kinds, error-presence oracle",
   text="For each generated value a fault-free run counts the Write calls W of the encode call; every k in 1..W x {error once, error from k on, short count with io.ErrShortWrite, short count with nil error} is injected through Encoder.WriteTo, Encoder.WriteObject (1st..3rd value of a stream), Serializer.WriteTo and Serializer.Write; whenever the fault fired the call must return a non-nil error.",
   note="Exhaustive in k per (value, entry point, fault kind); values are sampled from the zoo at small sizes.", ref="DESIGN.md 4 C15"),
 "C16": dict(level="exploration", tech="runtime monitoring: closure/consistency oracle (harness type walk with visited set) over extraction results from six witness kinds, second-value round trips, child process with bounded stack",
   text="For every zoo type and witness {zero, &T{}, empty containers, one element, full, cyclic} ExtractTypeNameMap/TypeMapFrom/NameMapFrom/TypeMapOf must return (64 MiB stack limit), contain every reachable struct and slice type under its wire name with consistent name and type maps, and suffice to round-trip other values of the type.",
   note="Termination restated as bounded progress; []T and []*T may share one list name (either accepted).", ref="DESIGN.md 4 C16"),
 "C17": dict(level="exploration", tech="history recording at the client boundary + online ownership table (CAS) + offline conservation / drain checks + porcupine linearizability against a nondeterministic set model + runtime deadlock detector + Go race detector",
   text="Get/Return by 1..64 goroutines on pools of size 0..8 from the three constructors under four op mixes; every call recorded with call/return sequence numbers; double hand-out, conservation, drain <= size without duplicates, linearizability of many short histories against a model as weak as the statement, non-blocking Get-only/Return-only phases (timer-free, decided by the runtime's deadlock detector) and usability of fresh objects are checked; concurrent phases also run under -race.",
   note="The model is deliberately not FIFO and allows dropping below capacity. porcupine timeouts and the parent watchdog yield inconclusive.", ref="DESIGN.md 4 C17"),
}
ALL = ["C%02d" % i for i in range(1, 18)]
NOT_YET = "check not built yet in this round (runtime-monitoring design exists in DESIGN.md; will be claimed when its monitor runs clean)"

def main():
    checks = []
    for pid in ALL:
        if pid not in CHECKS: continue
        c = CHECKS[pid]
        checks.append({
            "property_id": pid,
            "quick_cmd": "./check %s quick" % pid,
            "thorough_cmd": "./check %s thorough" % pid,
            "evidence_file": "/verif/evidence/%s.json" % pid,
            "replay_cmd_template": "./check %s --replay {path}" % pid,
            "engine": "vcheck",
            "level_claimed": {"category": c["level"], "text": c["text"], "design_ref": c["ref"]},
            "level_note": c["note"],
            "technique": c["tech"],
        })
    m = {
        "version": 1,
        "setup_cmd": "./check setup",
        "hooks": {
            "guard": "verif",
            "enable": "go build -tags verif (workers are always built with the tag; no hook is currently needed: every observation is made at the API boundary)",
            "baseline_off_cmd": BASE_OFF,
            "source_commits": [],
            "add_only": True,
        },
        "engines": [
            {"name": "vcheck", "path": "cmd/vcheck", "serves_properties": sorted(CHECKS), "kind_free_text": "parent driver + child workers (journal, fatal-death recovery), boundary monitors (mon/), reference Hessian 2.0 model (hspec/), type zoo with Denote/Equiv (zoo/)"},
        ],
        "checks": checks,
        "notes": "Runtime monitoring only: every verdict is an oracle observing executions of the real code built from /repo's working tree. See DESIGN.md.",
        "not_applicable": [{"property_id": p, "reason": NOT_YET} for p in ALL if p not in CHECKS],
    }
    with open(os.path.join(HERE, "MANIFEST.json"), "w") as f:
        json.dump(m, f, indent=1)
        f.write("\n")

if __name__ == "__main__":
    main()
