#!/bin/bash
# tools/rebase_auto.sh <patch.diff> <demo_test.go> <out.diff>: like rebase_seeded.sh, but resolves 3-way conflicts by trying,
# for all conflict hunks at once, union (ours then theirs) / theirs / ours, keeping the first resolution that builds, keeps the
# suite green and makes the demo fail.
export GOFLAGS=-mod=mod GOPROXY=off GOSUMDB=off GOTOOLCHAIN=local
W=/tmp/sb/RB; H=$(git -C /repo rev-parse HEAD)
cd $W || exit 2
for strat in smart union theirs ours union-rev; do
  git checkout -q -f --detach $H; git clean -fdq
  git apply --3way "$1" >/tmp/ev/rebase.log 2>&1
  files=$(git diff --name-only --diff-filter=U)
  if [ -z "$files" ] && ! git apply --check -R "$1" 2>/dev/null && [ -z "$(git status --short)" ]; then echo "FAILED: $(tail -1 /tmp/ev/rebase.log)"; exit 1; fi
  for f in $files; do python3 - "$f" "$strat" <<'PY'
import sys,re
p,strat=sys.argv[1],sys.argv[2]
s=open(p).read()
def rep(m):
    ours,theirs=m.group(1),m.group(2)
    if strat=="smart":
        if ours.strip().startswith('"') and theirs.strip().startswith('"'):
            return "".join(sorted(set((ours+theirs).splitlines(True))))
        if "clipName(fldName)" in ours and "fldName" in theirs:
            t=theirs.replace('", fldName, err)','", clipName(fldName), err)').replace('%v", fldName, typ)','%v", clipName(fldName), typ)')
            return t
        if "func clipName" in ours and "func " in theirs:
            return ours+"}\n\n"+theirs
        if "mapConv map[_mapConversion]reflect.Value" in ours and "func " not in theirs:
            return ours+theirs
        if "skipValue()" in ours and "func (d *Decoder) skipValue" not in ours and "d.ReadData()" in theirs:
            return re.sub(r'_, err = d\.ReadData\(\)','err = d.skipValue()',re.sub(r'_, err := d\.ReadData\(\)','err := d.skipValue()',theirs))
        if "d.setListElem(" in ours and "SetValue(" in theirs:
            return theirs.replace("SetValue(elem, v)","d.setListElem(elem, v)").replace("SetValue(aryValue.Index(j), v)","d.setListElem(aryValue.Index(j), v)")
        if "func (d *Decoder) setListElem" in ours and "func " in theirs:
            return ours+"}\n\n"+theirs
        if "func (d *Decoder) skipValue" in ours:
            return ours+"}\n\n"+theirs
        return ours+theirs
    return {"union":ours+theirs,"union-rev":theirs+ours,"theirs":theirs,"ours":ours}[strat]
s=re.sub(r'<<<<<<< ours\n(.*?)=======\n(.*?)>>>>>>> theirs\n',rep,s,flags=re.S)
open(p,'w').write(s)
PY
  done
  git add -A >/dev/null 2>&1; git reset -q
  go build ./... >/tmp/ev/rebase.build.log 2>&1 || continue
  go vet . >/dev/null 2>&1
  go test -vet=off -count=1 ./... >/tmp/ev/rebase.suite.log 2>&1 || continue
  cp "$2" ./zz_demo_test.go
  if go test -vet=off -count=1 . >/tmp/ev/rebase.demo.log 2>&1; then rm -f zz_demo_test.go; [ -z "$files" ] && { echo "DEMO-PASSES(!) clean-apply"; git checkout -q -f $H; exit 6; }; continue; fi
  rm -f zz_demo_test.go
  git diff HEAD > "$3"
  git checkout -q -f $H; git clean -fdq
  echo "OK strategy=$strat conflicts=[$(echo $files | tr "\n" " ")]"; exit 0
done
git checkout -q -f $H; git clean -fdq
echo "MANUAL"; exit 3
