#!/usr/bin/env python3
# compact triage: group by class + selected feature prefixes + masked reason
import json,sys,collections,re
f=sys.argv[1]; pref=tuple(sys.argv[2].split(',')) if len(sys.argv)>2 else ('choice:',)
g=collections.Counter(); ex={}
for l in open(f):
    v=json.loads(l)
    if v.get('kf'): continue
    d=re.sub(r'\s+',' ',v['detail'])
    m=re.search(r'(ToObject|Decoder\.ReadObject|panic|dec-error|mismatch): (.*?)( \(library|; stream|$)', d)
    what=re.sub(r'0x[0-9a-f]+|[0-9]+','#',(m.group(2) if m else d))[-70:]
    cs=tuple(sorted(x for x in (v['features'] or []) if x.startswith(pref)))
    key=(v['class'], cs, what)
    g[key]+=1; ex.setdefault(key, d)
for k,n in sorted(g.items(), key=lambda kv:-kv[1])[:int(sys.argv[3]) if len(sys.argv)>3 else 30]:
    print(n, k[0], ' '.join(k[1]), '|', k[2]); print('      ', ex[k][:int(sys.argv[4]) if len(sys.argv)>4 else 260])
print('groups', len(g))
