package work

import (
	"bytes"
	"encoding/hex"
	"fmt"
	"math/rand"
	"reflect"
	"strings"
	"time"

	hessian "github.com/vogo/gohessian"

	"verif/hspec"
	"verif/mon"
	"verif/zoo"
)

// C14 — hostile input: the decoder always returns, within input-proportional resources.
type c14 struct{}

func init() { Register(c14{}) }

func (c14) ID() string    { return "C14" }
func (c14) Level() string { return "exploration" }
func (c14) Rule() string {
	return "byte strings up to 64 KiB: uniformly random (log-uniform lengths), every prefix of valid messages of every zoo shape, and structure-aware mutations driven by the reference decoder's annotation of a valid message (tag swaps, class/type/ref index edits to {-1, size, size+1, 2^31-1}, length/count edits to {0, +-1, 255, 256, 65535, 2^31-1, -1}, type-name edits, delete/duplicate/transpose of whole sub-values, byte flips/insertions/removals), against type maps {complete, empty, one class missing, adversarial}; entry points ToObject, Decoder.Decode, Decoder.ReadFrom, repeated Decoder.ReadObject to end of input, Serializer.ToObject / ReadFrom / Read. Each case runs in a child process under RLIMIT_AS with a journal. Oracle: the call returns (no panic, no process death), bytes allocated <= 1 MiB + 8192*len, reader calls <= 4096 + 64*len (metered reader aborts at the budget), CPU <= 6 s per call (the slowest call on the current tree takes 0.65 s). Non-trivial = input is not a valid message; distinct by input hash."
}

// every call is journalled and bounded by 20 CPU-seconds: a worker that has used 30 CPU-seconds
// since its last journal line is inside a call that exceeded the bound and did not return
// c14cpuBound: CPU-seconds one decode call may take on an input of at most 64 KiB. The slowest call on the
// current tree takes 0.65 s (64 KiB of nested list tags); the bound leaves a factor of nine.
const c14cpuBound = 6.0

func (c14) ProcOpts() Proc { return Proc{RlimitAS: 4 << 30, StallSec: 45, StallCPU: 30} }
func (c14) FatalFeatures(c Case) []string {
	return []string{"kind=" + c.Kind}
}

func (c14) Cases(tier string, seed int64, kf *KnownFindings) []Case {
	var cs []Case
	add := func(c Case) { c.Sub = -1; cs = append(cs, c) }
	nr, per, nm, mper := 16, 250, 4, 60
	if tier == "thorough" {
		nr, per, nm, mper = 160, 2500, 40, 400
	}
	for i := 0; i < nr; i++ {
		add(Case{Kind: "random", Seed: Mix(seed, i), Count: per})
	}
	for i, e := range zoo.Types {
		for k := 0; k < nm; k += 4 {
			add(Case{Kind: "mutate", Type: e.Name, Seed: Mix(seed, 10000+i*100+k), Count: mper, N: 4})
		}
		add(Case{Kind: "prefix", Type: e.Name, Seed: Mix(seed, 20000+i), Count: 2})
	}
	add(Case{Kind: "crafted", Count: len(craftedInputs())})
	return cs
}

// craftedInputs: small hand-written hostile inputs aimed at declared lengths and indices.
func craftedInputs() [][]byte {
	h := func(s string) []byte { b, _ := hex.DecodeString(strings.ReplaceAll(s, " ", "")); return b }
	var out [][]byte
	for _, s := range []string{
		"58497fffffff",                                 // untyped list, length 2^31-1
		"5849ffffffff",                                 // untyped list, length -1
		"56045b696e74497fffffff",                       // typed list 'V' "[int" 2^31-1
		"56045b696e7449ffffffff",                       // typed list 'V' "[int" -1
		"430161497fffffff",                             // class def with 2^31-1 fields
		"43016149ffffffff",                             // class def with -1 fields
		"4301619060",                                   // class def 0 fields + instance
		"4f90", "4f497fffffff", "4f49ffffffff", "4f8f", // object of class #0 / huge / negative, no definition
		"60", "6f", "62", // short-form object without definition
		"5190", "51497fffffff", "5149ffffffff", "518f", // refs without target
		"7290", "729049ffffffff", "72497fffffff", // typed list with type by index, no types
		"4d90", "4d497fffffff", "4d8f5a", // typed map with type index
		"53ffff", "52ffff", "42ffff", "41ffff", "62ffff", // chunks longer than the input
		"52000161520001615200016153000161",                 // many chunks
		"48905a", "4890", "485a5a", "48", "4d00", "4d0001", // maps
		"575757575757575757575757", "787878787878", "7f7f7f7f7f7f7f7f", // nested list headers, no content
		"5a", "5a5a", "40", "45", "47", "50", // end marks and reserved tags at top level
		"4a00", "4b00", "4c00", "4900", "4400", "5f00", // truncated scalars
		"43", "4300", "430161", "43016191", "4301619101", // truncated class definitions
		"4301619101626090", "43016191016261", // instance of other class / wrong index
		"795190", "78", "7a51905190", "485190515a", "4851905190 5a", "57519051905a", // containers holding references to themselves
		"71045b696e74795191", "72045b696e747951917951 92", "56045b696e7491795191", // typed list whose element is a self-containing list
		"4d00519051905a", "4301619101626051 90", // map / object referring to itself
		"4305496e6e6572920001736090 0161", "4305496e6e65729201610173609001 61", // known class (Inner) defined with an EMPTY field name, then a well-formed Inner: the second must still decode
		"4305496e6e657292016101736090 0161", "4305496e6e65729200006090 90", "4305496e6e6572910060 90",
		// a map-typed field with interface{} values holding an untyped map that contains itself
		"43084d70537472416e7991016d60 48 016b 48 0173 5192 5a 5a", "43084d70537472416e7991016d60 48 016b 48 0173 5191 5a 5a", "43084d70537472416e7991016d60 48 016b 5191 5a",
		"48 016b 48 0173 5190 5a 5a", "48 016b 48 0173 5191 5a 5a", "4d00 016b 48 0173 5190 5a 5a",
		// two values on one stream: an object whose []int32 field holds an EMPTY untyped list, then a bare reference to that list
		"4307536c496e7433329101766078 5191", "4307536c496e7433329101766078 5190", "4305536c5374729101766078 5191 5191",
		"4307536c496e743332910176607991 5191", "78 5190", "57 5a 5190 5190", "48 5a 5190",
	} {
		out = append(out, h(s))
	}
	// lists that really carry more than a thousand elements and declare far more
	for _, hdr := range []string{"584901000000", "58497fffffff", "56045b696e744901000000", "56045b696e74497fffffff"} {
		b := h(hdr)
		for i := 0; i < 1030; i++ {
			b = append(b, 0x90+byte(i%40))
		}
		out = append(out, b)
	}
	// a class definition that really carries many field names and declares far more
	{
		b := h("4301614901000000")
		for i := 0; i < 1030; i++ {
			b = append(b, 0x01, 'f')
		}
		out = append(out, b)
	}
	// 64 KiB of nested list tags (legitimately deep)
	deep := make([]byte, 65536)
	for i := range deep {
		deep[i] = 0x57
	}
	out = append(out, deep)
	deep2 := make([]byte, 65536)
	for i := range deep2 {
		deep2[i] = 'H'
	}
	out = append(out, deep2)
	// small acyclic messages in which container #k holds container #k-1 TWICE (by reference): 2^depth
	// paths lead to the innermost one; any pass that walks a decoded graph per path never finishes
	cint := func(k int) []byte {
		if k <= 47 {
			return []byte{byte(0x90 + k)}
		}
		return []byte{byte(0xc8 + k>>8), byte(k)}
	}
	for _, depth := range []int{24, 40, 60, 200, 1500} {
		b := []byte{0x57, 0x79, 0x91} // top list (#0), then #1 = [1]
		for k := 1; k <= depth; k++ {
			b = append(b, 0x7a, 0x51)
			b = append(b, cint(k)...)
			b = append(b, 0x51)
			b = append(b, cint(k)...)
		}
		out = append(out, append(b, 'Z'))
		m := []byte{0x57, 'H', 0x01, 'a', 0x91, 'Z'} // top list (#0), then #1 = {a:1}
		for k := 1; k <= depth; k++ {
			m = append(m, 'H', 0x01, 'a', 0x51)
			m = append(m, cint(k)...)
			m = append(m, 0x01, 'b', 0x51)
			m = append(m, cint(k)...)
			m = append(m, 'Z')
		}
		out = append(out, append(m, 'Z'))
	}
	// registered container type names in the wrong place: a typed map under the name of ANOTHER registered
	// map type where a map-typed destination expects its own, typed lists under another list's name
	enc := func(v *hspec.Value) {
		b, _ := hspec.Encode(v, hspec.Canonical{}, hspec.EncOpts{})
		out = append(out, b)
	}
	tmap := func(name string, kv ...*hspec.Value) *hspec.Value {
		m := hspec.Map(name, kv...)
		m.MapTyped = true
		return m
	}
	for _, names := range [][2]string{{"com.example.Totals", "com.example.Counts"}, {"com.example.Counts", "com.example.Counts"}, {"com.example.Totals", "com.example.Totals"}, {"[int32", "[string"}} {
		enc(hspec.Object("MpNamed", []string{"groups", "sum"},
			hspec.Map("", hspec.String("k"), tmap(names[0], hspec.String("a"), hspec.Int(1)), hspec.String("l"), tmap(names[0], hspec.String("b"), hspec.Int(2))),
			tmap(names[1], hspec.String("c"), hspec.Int(3))))
		enc(hspec.Object("NamedMapHolder", []string{"m", "n"}, tmap(names[0], hspec.String("a"), hspec.Int(1)), hspec.Int(2)))
		enc(hspec.Object("MpStrMp", []string{"m"}, hspec.Map("", hspec.String("o"), tmap(names[0], hspec.String("a"), hspec.String("x")))))
		enc(hspec.Object("SlMap", []string{"v"}, hspec.List("", tmap(names[0], hspec.String("a"), hspec.Int(1)), tmap(names[1], hspec.String("a"), hspec.Int(1)))))
	}
	for _, names := range [][2]string{{"[int32", "[string"}, {"[string", "[int64"}, {"[zoo.Inner", "[int32"}, {"com.example.InnerList", "[string"}} {
		enc(hspec.Object("TwoSlices", []string{"a", "b"}, hspec.List(names[0], hspec.Int(1), hspec.Int(2)), hspec.List(names[1], hspec.String("x"))))
		enc(hspec.Object("SlSl", []string{"v"}, hspec.List("", hspec.List(names[0], hspec.Int(1)), hspec.List(names[1], hspec.Int(2)))))
	}
	// back-references to an UNTYPED list from typed slice fields (each one has to be converted):
	// n references to one list of m elements must not cost n*m
	for _, n := range []int{2000, 20800} {
		b := hspecHx("C x04 Tree x92 x04 name x04 kids x57")
		for i := 0; i < n; i++ {
			b = append(b, 0x60, 'N', 0x51, 0x90) // Tree{name: null, kids: ref to the enclosing, still growing list}
		}
		out = append(out, append(b, 'Z'))
	}
	{
		b := hspecHx("C x07 SlInt64 x91 x01 v x57 x58 xd4 x4e x20") // list #0 holds list #1: 20000 ints ...
		for i := 0; i < 20000; i++ {
			b = append(b, 0x90+byte(i%40))
		}
		for i := 0; i < 8000; i++ {
			b = append(b, 0x60, 0x51, 0x91) // ... and 8000 SlInt64{v: ref #1}
		}
		out = append(out, append(b, 'Z'))
	}
	// nested lists that each DECLARE 1024 elements (the largest length that is reserved up front)
	{
		var b []byte
		for i := 0; i < 21845; i++ {
			b = append(b, 0x58, 0xcc, 0x00)
		}
		out = append(out, b)
	}
	// the same doubling inside a typed destination: SlIface.V / MpStrAny.M hold the chain
	for _, depth := range []int{30, 60} {
		b := hspecHx("C x07 SlIface x91 x01 v x60 x57 x79 x91")
		for k := 2; k <= depth; k++ { // object #0, v list #1, [1] #2
			b = append(b, 0x7a, 0x51)
			b = append(b, cint(k)...)
			b = append(b, 0x51)
			b = append(b, cint(k)...)
		}
		out = append(out, append(b, 'Z'))
	}
	// an untyped map that contains itself, under / inside a SELF-REFERENTIAL map type of the type map
	out = append(out, hspecHx("M x04 RMap x01 a H x01 b Q x91 Z Z"))
	out = append(out, hspecHx("C x05 HoldR x93 x01 t x01 m x01 n x60 N H x01 a H x01 b Q x92 Z Z x90"))
	out = append(out, hspecHx("C x05 HoldR x93 x01 t x01 m x01 n x60 x57 x57 Q x91 Z Z N x90"))
	// list type names the type map does not know, made of thousands of '[' in front of a name it does know
	for _, depth := range []int{300, 5000, 20000, 60000} {
		for _, root := range []string{"int32", "zoo.Inner", "Inner", "string"} {
			name := strings.Repeat("[", depth) + root
			b := append([]byte{'V', 'S', byte(len(name) >> 8), byte(len(name))}, name...)
			out = append(out, append(b, 0x91, 0x90))
			if depth == 5000 {
				f := hspecHx("C x04 SlSl x91 x01 v x60 x55")
				f = append(f, 'S', byte(len(name)>>8), byte(len(name)))
				f = append(f, name...)
				out = append(out, append(f, 0x90, 'Z'))
			}
		}
	}
	// m references to ONE untyped map of n entries from typed map fields (each one has to be converted):
	// the cost must not be n*m (indexes 157, 158)
	{
		b := []byte{0x57, 'H'}
		for i := 0; len(b) < 30000; i++ {
			b = append(b, 3, 'a'+byte(i%26), 'a'+byte(i/26%26), 'a'+byte(i/676%26), 0x91)
		}
		b = append(b, 'Z')
		b = append(b, hspecHx("C x08 MpStrI32 x91 x01 m")...)
		for len(b) < 65000 {
			b = append(b, 0x60, 0x51, 0x91)
		}
		out = append(out, append(b, 'Z'))
	}
	// one 30000-character unknown field name and 35000 nested instances: the name must not be copied
	// (into a lookup key, an error text, a log line) at every level
	{
		b := hspecHx("C x05 Inner x91")
		b = append(b, 'S', 0x75, 0x30)
		b = append(b, bytes.Repeat([]byte{'x'}, 30000)...)
		for len(b) < 65000 {
			b = append(b, 0x60)
		}
		out = append(out, b)
	}
	// a container that contains itself (or a doubling DAG) where the destination is a STRING: a map key or
	// value of map[string]string, an element of []string (indexes 159 and up)
	selfList := []byte{0x79, 0x51} // untyped list of one element: a reference (to itself, number appended)
	for _, msg := range []string{
		"C x08 MpStrStr x91 x01 m x60 H %s x92 x01 v Z",      // key of map[string]string: list #2 = [ref #2]
		"C x08 MpStrStr x91 x01 m x60 H x01 k %s x92 Z",      // value
		"C x05 SlStr x91 x01 v x60 x57 x01 a %s x92 x01 b Z", // element of []string
		"C x08 MpStrI32 x91 x01 m x60 H %s x92 x91 Z",
	} {
		parts := strings.SplitN(msg, "%s", 2)
		b := hspecHx(parts[0])
		b = append(b, selfList...)
		b = append(b, hspecHx(strings.TrimSpace(parts[1]))...)
		out = append(out, b)
	}
	{
		// key = top of a doubling DAG of 26 levels (2^26 paths)
		b := hspecHx("C x08 MpStrStr x91 x01 m x60 x57 x79 x91") // object #0, outer list #1, [1] #2
		for k := 2; k <= 27; k++ {
			b = append(b, 0x7a, 0x51)
			b = append(b, cint(k)...)
			b = append(b, 0x51)
			b = append(b, cint(k)...)
		}
		b = append(b, 'Z')
		out = append(out, b)
		m := hspecHx("C x08 MpStrStr x91 x01 m x60 H x79 x91") // map #1, key #2 = [1] ... then keys that double
		for k := 2; k <= 27; k++ {
			m = append(m, 0x01, 'v', 0x7a, 0x51)
			m = append(m, cint(k)...)
			m = append(m, 0x51)
			m = append(m, cint(k)...)
		}
		m = append(m, 0x01, 'v', 'Z')
		out = append(out, m)
	}
	// a stream of 65536 top-level values, each an empty list (a container on the stream): whatever a
	// streaming decoder does per value must not grow with the number of values read before
	out = append(out, bytes.Repeat([]byte{0x78}, 65536))
	out = append(out, bytes.Repeat([]byte{'H', 'Z'}, 32768))
	out = append(out, bytes.Repeat([]byte{0x79, 0x90}, 32768))
	// a map cycle that passes through a pointer: a typed map with interface values stores a reference to
	// itself; the same map is then the value of a field of a self-referential map type (index 168)
	out = append(out, hspecHx("x7a M x14 com.example.AnyProps x01 a Q x91 Z C x05 HoldR x93 x01 t x01 m x01 n x60 N Q x91 x90"))
	// n references to ONE untyped map from the VALUES of a typed map field / from the ELEMENTS of a list of
	// typed maps (indexes 169, 170)
	for shape := 0; shape < 2; shape++ {
		b := []byte{0x7a, 'H'}
		for i := 0; i < 9000; i++ {
			b = append(b, cint(i%2000)...)
			b = append(b, 0x91)
		}
		b = append(b, 'Z')
		if shape == 0 {
			b = append(b, hspecHx("C x08 MpOfMaps x92 x01 a x01 m x60 x01 x H")...)
			for i := 0; len(b) < 61800; i++ {
				b = append(b, cint(i%2000)...)
				b = append(b, 0x51, 0x91)
			}
			b = append(b, 'Z')
		} else {
			b = append(b, hspecHx("C x08 SlOfMaps x92 x01 a x01 l x60 x01 x x57")...)
			for len(b) < 51900 {
				b = append(b, 0x51, 0x91)
			}
			b = append(b, 'Z')
		}
		out = append(out, b)
	}
	// one long untyped list referred to ALTERNATELY from slice fields of two different types (index 171):
	// a list is converted once per destination type, not once per reference
	{
		b := []byte{0x57, 0x58, 0xd4, 12000 >> 8, 12000 & 0xff}
		for i := 0; i < 12000; i++ {
			b = append(b, byte(0x90+i%40))
		}
		b = append(b, hspecHx("C x09 TwoNarrow x92 x04 wide x05 plain")...)
		for i := 0; i < 8000; i++ {
			b = append(b, 0x60, 0x51, 0x91, 0x51, 0x91)
		}
		b = append(b, 'Z')
		out = append(out, b)
	}
	// 2000 NESTED fixed-length lists, each declaring exactly the number of octets left behind its header,
	// then nulls (index 172): every declaration is credible on its own for a reader that reports Len()
	{
		const total, levels = 65536, 2000
		var b []byte
		for i := 0; i < levels; i++ {
			left := total - 6*(i+1) // (the five-octet int form keeps every header the same size)
			b = append(b, 0x58, 'I', byte(left>>24), byte(left>>16), byte(left>>8), byte(left))
		}
		for len(b) < total {
			b = append(b, 'N')
		}
		out = append(out, b)
	}
	// one generic map referred to from one-element LISTS of typed maps in 6000 objects (index 173), and from
	// 3000 small generic maps that 3000 objects refer to through a map-of-maps field (index 174): a conversion
	// is made once per (map, type), whichever list or map holds the reference
	wint := func(k int) []byte {
		if k < 2048 {
			return cint(k)
		}
		return []byte{byte(0xd4 + k>>16), byte(k >> 8), byte(k)}
	}
	{
		b := []byte{0x57, 'H'}
		for i := 0; i < 6000; i++ {
			b = append(append(b, wint(i)...), 0x91)
		}
		b = append(b, 'Z')
		b = append(b, hspecHx("C x08 SlOfMaps x92 x01 a x01 l")...)
		for i := 0; i < 6000; i++ {
			b = append(b, 0x60, 0x01, 'x', 0x79, 0x51, 0x91)
		}
		out = append(out, append(b, 'Z'))
	}
	{
		b := []byte{0x57, 'H'}
		for i := 0; i < 3000; i++ {
			b = append(append(b, wint(i)...), 0x91)
		}
		b = append(b, 'Z')
		for i := 0; i < 3000; i++ {
			b = append(b, 'H', 0x91, 0x51, 0x91, 'Z')
		}
		b = append(b, hspecHx("C x08 MpOfMaps x92 x01 a x01 m")...)
		for i := 0; i < 3000; i++ {
			b = append(append(b, 0x60, 0x01, 'x', 0x51), wint(2+i)...)
		}
		out = append(out, append(b, 'Z'))
	}
	// a chain of 40 / 400 objects linked through a struct field, the innermost one damaged (indexes 175, 176):
	// reporting the failure costs what the message cost, not a multiple of it per level
	for _, depth := range []int{40, 400} {
		b := hspecHx("C x04 Node x93 x03 val x04 next x04 prev")
		for i := 0; i < depth; i++ {
			b = append(b, 0x60, 0x91)
		}
		b = append(b, 'T', 'N') // a boolean where the next node should be
		out = append(out, b)
	}
	// input 157 again with the referring objects as the VALUES of an enclosing map (index 177): what is
	// remembered about a conversion must not depend on whether some wire map is open
	{
		b := []byte{0x57, 'H'}
		for i := 0; len(b) < 20000; i++ {
			b = append(b, 3, 'a'+byte(i%26), 'a'+byte(i/26%26), 'a'+byte(i/676%26), 0x91)
		}
		b = append(b, 'Z')
		b = append(b, hspecHx("C x08 MpStrI32 x91 x01 m")...)
		b = append(b, 'H')
		for i := 0; len(b) < 45000; i++ {
			b = append(append(b, wint(i)...), 0x60, 0x51, 0x91)
		}
		out = append(out, append(b, 'Z', 'Z'))
	}
	// 9000 references to one generic map of 6000 entries as the elements of a TYPED list of maps (index 178)
	{
		b := []byte{0x57, 'H'}
		for i := 0; i < 6000; i++ {
			b = append(append(b, wint(i)...), 0x91)
		}
		b = append(b, 'Z', 0x55)
		b = append(b, hspecHx("x0f [map[int32int32")...)
		for i := 0; i < 9000; i++ {
			b = append(b, 0x51, 0x91)
		}
		out = append(out, append(b, 'Z', 'Z'))
	}
	// classes registered for struct types that embed themselves through a pointer, with wire fields that exist
	// at no level of the embedding (indexes 179-181)
	out = append(out,
		hspecHx("C x07 SelfEmb x93 x01 n x06 nosuch x05 other x60 x91 x92 x93"),
		hspecHx("C x04 EmbA x92 x06 nosuch x01 a x60 x91 x92"),
		hspecHx("x57 C x04 EmbB x92 x01 b x03 zzz x60 x91 x92 C x07 SelfEmb x91 x04 self x61 N Z"))
	// ONE class definition with 16000 pairwise distinct field names and no instance (index 182), and the same
	// followed by one instance with null fields (index 183): the cost of a definition is its length
	for _, withInst := range []bool{false, true} {
		n := 16000
		if withInst {
			n = 10000
		}
		b := append(hspecHx("C x05 Inner"), wint(n)...)
		for i := 0; i < n; i++ {
			b = append(b, 3, 'a'+byte(i%26), 'a'+byte(i/26%26), 'a'+byte(i/676%26))
		}
		if withInst {
			b = append(b, 0x60)
			b = append(b, bytes.Repeat([]byte{'N'}, n)...)
		}
		out = append(out, b)
	}
	return out
}

// embedding cycles through pointers
type c14SelfEmb struct {
	*c14SelfEmb
	N int32
}
type c14EmbA struct {
	*c14EmbB
	A int32
}
type c14EmbB struct {
	*c14EmbA
	B int32
}

type c14maps struct {
	name string
	tm   map[string]reflect.Type
}

func c14typeMaps(tm map[string]reflect.Type, r *rand.Rand) []c14maps {
	out := []c14maps{{"complete", tm}, {"empty", map[string]reflect.Type{}}}
	// one class missing
	if len(tm) > 0 {
		miss := map[string]reflect.Type{}
		skip := r.Intn(len(tm))
		i := 0
		for k, v := range tm {
			if i != skip {
				miss[k] = v
			}
			i++
		}
		out = append(out, c14maps{"one-missing", miss})
	}
	// adversarial: every name bound to a type of another kind
	adv := map[string]reflect.Type{}
	alts := []reflect.Type{reflect.TypeOf(int32(0)), reflect.TypeOf(""), reflect.TypeOf([]string{}), reflect.TypeOf(map[string]int32{}), reflect.TypeOf(zoo.Inner{}), reflect.TypeOf(&zoo.Inner{}), reflect.TypeOf(time.Time{}), reflect.TypeOf([]byte{}), reflect.TypeOf(map[int32]bool{}), reflect.TypeOf([2]int32{})}
	for k := range tm {
		adv[k] = alts[r.Intn(len(alts))]
	}
	out = append(out, c14maps{"adversarial", adv})
	return out
}

var c14entries = []string{"Decoder.ReadObject*", "Serializer.ReadFrom+Read", "ToObject", "Decoder.Decode", "Decoder.ReadFrom", "Serializer.ToObject", "Serializer.ReadFrom"}

// c14run applies all monitors to one (input, type map).
func c14run(env *Env, res *Result, c Case, sub int, input []byte, tmName string, tm map[string]reflect.Type, feats []string) {
	cc := c
	cc.Sub = sub
	cc.S = hex.EncodeToString(input)
	if len(cc.S) > 4000 {
		cc.S = "" // regenerated from the seed on replay
	}
	// the decoder reserves at most 1024 slots (16 bytes each) for a declared list length, and a list
	// header takes 3 octets: 5461 bytes per input octet is the steepest legitimate (linear) slope
	allocBudget := uint64(1<<20 + 8192*len(input))
	callBudget := 4096 + 64*len(input)
	base := append([]string{"typemap=" + tmName}, feats...)
	tmLen := len(tm)
	tmKeys := make(map[string]reflect.Type, len(tm))
	for k, t := range tm {
		tmKeys[k] = t
	}
	for ei, entry := range c14entries {
		env.J(cc.Idx, cc.Sub) // one journal line per CALL: the parent's watchdog and CPU bound apply to a single call
		res.Evals++
		res.Count("entry="+entry, 1)
		ff := append([]string{"entry=" + entry}, base...)
		viol := func(class, detail string) {
			env.Viol(res, Violation{Class: class, Features: ff, Detail: fmt.Sprintf("%s on %d bytes (%s), type map %s: %s", entry, len(input), hexClip(input), tmName, detail), Case: cc})
		}
		var pi *PanicInfo
		var bud *mon.BudgetExceeded
		var err error
		var values int
		cpu0 := mon.CPUSeconds()
		alloc := mon.AllocDelta(func() {
			pi, bud = Guard(func() {
				switch ei {
				case 0: // repeated ReadObject until the input is used up or an error
					rd := mon.NewReader(input)
					rd.Budget = callBudget
					d := hessian.NewDecoder(rd, tm)
					for k := 0; k < 1+len(input); k++ {
						_, err = d.ReadObject()
						if err != nil {
							return
						}
						values++
						if rd.Off >= len(input) {
							return
						}
					}
				case 1:
					rd := mon.NewReader(input)
					rd.Budget = callBudget
					s := hessian.NewSerializer(tm, nil)
					_, err = s.ReadFrom(rd)
					for k := 0; err == nil && rd.Off < len(input) && k < len(input); k++ {
						_, err = s.Read()
					}
				case 2:
					_, err = hessian.ToObject(input, tm)
				case 3:
					_, err = hessian.NewDecoder(nil, tm).Decode(input)
				case 4:
					rd := mon.NewReader(input)
					rd.Budget = callBudget
					_, err = hessian.NewDecoder(nil, tm).ReadFrom(rd)
				case 5:
					_, err = hessian.NewSerializer(tm, nil).ToObject(input)
				case 6:
					rd := mon.NewReader(input)
					rd.Budget = callBudget
					_, err = hessian.NewSerializer(tm, nil).ReadFrom(rd)
				}
			})
		})
		cpu := mon.CPUSeconds() - cpu0
		res.Max("alloc_bytes_per_call", int64(alloc))
		res.Max("cpu_ms_per_call", int64(cpu*1000))
		changed := len(tm) != tmLen
		for k, t0 := range tmKeys {
			if tm[k] != t0 {
				changed = true
				tm[k] = t0
			}
		}
		if changed {
			viol("typemap-written", fmt.Sprintf("the caller's type map was written to during the call (%d -> %d entries, or an entry replaced): hostile input must not write to a map that other decoders share", tmLen, len(tm)))
			for k := range tm {
				if _, ok := tmKeys[k]; !ok {
					delete(tm, k)
				}
			}
		}
		if err != nil {
			res.Count("returned_error", 1)
		} else if pi == nil && bud == nil {
			res.Count("returned_value", 1)
		}
		switch {
		case bud != nil:
			viol("budget:reader-calls", fmt.Sprintf("more than %d reader calls", callBudget))
		case pi != nil:
			viol(pi.Class, pi.Msg)
		}
		if alloc > allocBudget {
			viol("budget:alloc", fmt.Sprintf("%d bytes allocated, budget %d", alloc, allocBudget))
		}
		if cpu > c14cpuBound {
			viol("budget:cpu", fmt.Sprintf("%.1f CPU-seconds", cpu))
		}
		if pi != nil || bud != nil || cpu > c14cpuBound {
			break // the same site would be reported by every entry point
		}
	}
}

// mutate applies one structure-aware mutation to a valid message.
func mutate(r *rand.Rand, valid []byte, root *hspec.Value, p *hspec.Parser) ([]byte, string) {
	var nodes []*hspec.Value
	hspec.Walk(root, func(n *hspec.Value) {
		if n.Ann != nil {
			nodes = append(nodes, n)
		}
	})
	b := append([]byte{}, valid...)
	splice := func(off, end int, with []byte) []byte {
		out := append([]byte{}, b[:off]...)
		out = append(out, with...)
		return append(out, b[end:]...)
	}
	encInt := func(v int32) []byte {
		return []byte{'I', byte(v >> 24), byte(v >> 16), byte(v >> 8), byte(v)}
	}
	hostileInts := []int32{-1, 0, 1, 255, 256, 65535, 1<<31 - 1, -1 << 31, int32(len(p.Refs)), int32(len(p.Refs) + 1), int32(len(p.Classes)), int32(len(p.Classes) + 1), int32(len(p.Types)), int32(len(p.Types) + 1)}
	for try := 0; try < 20; try++ {
		n := nodes[r.Intn(len(nodes))]
		a := n.Ann
		switch r.Intn(12) {
		case 0: // swap the tag for a tag of another class
			tags := []byte{'N', 'T', 0x90, 'I', 0xe0, 'L', 0x5b, 'D', 0x4a, 0x4b, 0x05, 'S', 'R', 0x23, 'B', 0x41, 0x62, 0x55, 'V', 0x57, 0x58, 0x72, 0x7a, 'M', 'H', 'C', 'O', 0x60, 0x61, 0x6f, 0x51, 'Z', 0x40}
			b[a.Off] = tags[r.Intn(len(tags))]
			return b, "tag-swap"
		case 1: // ref / object index edit
			if n.Kind == hspec.KRef || (n.Kind == hspec.KObject && a.Form == "O") {
				return splice(a.IdxOff, a.IdxEnd, encInt(hostileInts[r.Intn(len(hostileInts))])), "index-edit"
			}
			if n.Kind == hspec.KObject && a.Form == "x6" {
				b[a.Off] = 0x60 + byte(r.Intn(16))
				return b, "index-edit"
			}
		case 2: // explicit length edit
			if a.LenOff > 0 {
				return splice(a.LenOff, a.LenEnd, encInt(hostileInts[r.Intn(len(hostileInts))])), "length-edit"
			}
			if a.Form == "x7t" || a.Form == "x7u" {
				b[a.Off] = (b[a.Off] & 0xf8) | byte(r.Intn(8))
				return b, "length-edit"
			}
		case 3: // chunk length edit
			if len(a.Chunks) > 0 {
				ch := a.Chunks[r.Intn(len(a.Chunks))]
				if ch.Tag == 'S' || ch.Tag == 'R' || ch.Tag == 'B' || ch.Tag == 0x41 || ch.Tag == 0x62 {
					v := []int{0, 1, 255, 256, 65535, ch.N + 1, ch.N - 1}[r.Intn(7)]
					if v < 0 {
						v = 0
					}
					b[ch.Off+1], b[ch.Off+2] = byte(v>>8), byte(v)
					return b, "chunk-length-edit"
				}
				if ch.Tag <= 0x1f {
					b[ch.Off] = byte(r.Intn(32))
					return b, "chunk-length-edit"
				}
			}
		case 4: // type edit: literal -> index or corrupt name
			if (n.Kind == hspec.KList || n.Kind == hspec.KMap) && a.TypeEnd > a.TypeOff {
				if r.Intn(2) == 0 {
					return splice(a.TypeOff, a.TypeEnd, encInt(hostileInts[r.Intn(len(hostileInts))])), "type-index-edit"
				}
				if a.TypeEnd-a.TypeOff > 2 {
					b[a.TypeOff+1+r.Intn(a.TypeEnd-a.TypeOff-1)] ^= 0x20
					return b, "type-name-edit"
				}
			}
		case 5: // delete a whole sub-value
			return splice(a.Off, a.End, nil), "delete-subvalue"
		case 6: // duplicate a whole sub-value
			return splice(a.End, a.End, valid[a.Off:a.End]), "duplicate-subvalue"
		case 7: // transpose with another sub-value
			m := nodes[r.Intn(len(nodes))]
			if m.Ann.Off >= a.End {
				out := append([]byte{}, valid[:a.Off]...)
				out = append(out, valid[m.Ann.Off:m.Ann.End]...)
				out = append(out, valid[a.End:m.Ann.Off]...)
				out = append(out, valid[a.Off:a.End]...)
				out = append(out, valid[m.Ann.End:]...)
				return out, "transpose-subvalues"
			}
		case 8: // class definition: prefix / edit the class NAME, or edit the field count
			if len(p.Classes) > 0 && r.Intn(2) == 0 {
				cd := p.Classes[r.Intn(len(p.Classes))]
				nl := int(valid[cd.Off+1])
				if nl > 0 && nl <= 20 {
					name := string(valid[cd.Off+2 : cd.Off+2+nl])
					pre := fmt.Sprintf("p%dx%d.", r.Intn(9), r.Intn(1000))
					nn := pre + name
					out := append([]byte{}, valid[:cd.Off+1]...)
					out = append(out, byte(len(nn)))
					out = append(out, nn...)
					return append(out, valid[cd.Off+2+nl:]...), "class-name-prefix"
				}
			}
			if len(p.Classes) > 0 {
				cd := p.Classes[r.Intn(len(p.Classes))]
				// the field count follows the class name string
				if q, _, err := hspec.Parse(valid[cd.Off+1 : cd.Off+1+1+int(valid[cd.Off+1])]); err == nil && q.Kind == hspec.KString {
					cnt := cd.Off + 1 + 1 + int(valid[cd.Off+1])
					if cnt < len(b) && valid[cd.Off+1] <= 0x1f {
						return splice(cnt, cnt+1, encInt(hostileInts[r.Intn(len(hostileInts))])), "field-count-edit"
					}
				}
			}
		case 9:
			if r.Intn(2) == 0 && len(p.Refs) > 0 && a.Off > 0 {
				// replace the sub-value by a reference to any container (possibly the one enclosing it)
				k := r.Intn(len(p.Refs) + 1)
				return splice(a.Off, a.End, []byte{0x51, byte(0x90 + k%48)}), "ref-insert"
			}
			b[r.Intn(len(b))] ^= byte(1 << uint(r.Intn(8)))
			return b, "bit-flip"
		case 10:
			i := r.Intn(len(b) + 1)
			return splice(i, i, []byte{byte(r.Intn(256))}), "byte-insert"
		case 11:
			i := r.Intn(len(b))
			return splice(i, i+1, nil), "byte-remove"
		}
	}
	b[r.Intn(len(b))] ^= 0xff
	return b, "byte-invert"
}

func (c14) Run(c Case, env *Env) Result {
	var res Result
	lo, hi := subRange(c)
	switch c.Kind {
	case "crafted":
		ins := craftedInputs()
		for j := lo; j < hi && j < len(ins); j++ {
			env.J(c.Idx, j)
			res.NT = append(res.NT, Hash64(string(ins[j])))
			r := rand.New(rand.NewSource(int64(j)))
			tm, _ := sharedMaps()
			// struct types whose EMBEDDING graph has a cycle through a pointer ("any type map")
			tm["SelfEmb"], tm["EmbA"], tm["EmbB"] = reflect.TypeOf(c14SelfEmb{}), reflect.TypeOf(c14EmbA{}), reflect.TypeOf(c14EmbB{})
			for _, m := range c14typeMaps(tm, r)[:2] {
				c14run(env, &res, c, j, ins[j], m.name, m.tm, []string{"crafted"})
			}
		}
		res.Sample(map[string]interface{}{"kind": "crafted", "example": "58497fffffff (untyped list declaring 2^31-1 elements)"})
	case "random":
		tm, _ := sharedMaps()
		for j := lo; j < hi; j++ {
			r := rand.New(rand.NewSource(Mix(c.Seed, j)))
			n := 1 << uint(r.Intn(17)) // log-uniform up to 64 KiB
			n = 1 + r.Intn(n)
			in := make([]byte, n)
			r.Read(in)
			if j%3 == 0 {
				// bias towards tag bytes so that structures nest
				tags := []byte{'C', 'O', 0x60, 'V', 0x55, 0x57, 0x58, 0x72, 0x7a, 'M', 'H', 0x51, 'S', 'R', 'B', 0x41, 0x05, 0x90, 'I', 'Z', 'N'}
				for i := range in {
					if r.Intn(3) == 0 {
						in[i] = tags[r.Intn(len(tags))]
					}
				}
			}
			env.J(c.Idx, j)
			res.NT = append(res.NT, Hash64(string(in)))
			res.Max("input_bytes", int64(n))
			ms := c14typeMaps(tm, r)
			m := ms[r.Intn(len(ms))]
			c14run(env, &res, c, j, in, m.name, m.tm, []string{"random"})
			if len(res.Samples) == 0 {
				res.Sample(map[string]interface{}{"kind": "random bytes", "len": n, "head": hexClip(in)})
			}
		}
	case "prefix", "mutate":
		e, _ := zoo.Lookup(c.Type)
		cfg := zoo.DefaultCfg()
		cfg.Avoid["iface.struct"] = true
		cfg.MaxLen, cfg.StrMax = 5, 16
		for j := lo; j < hi; j++ {
			r := rand.New(rand.NewSource(Mix(c.Seed, j)))
			vi := j
			if c.Kind == "mutate" {
				vi = j % c.N
			}
			share := 0.0
			if e.Has("recursive") {
				share = 0.3
			}
			vcfg := cfg
			if c.Kind == "mutate" && vi%4 == 3 && e.Has("slice") {
				vcfg.ForceLen = 1030 + int(Mix(c.Seed, vi)%200) // beyond the decoder's preallocation bound
				vcfg.MaxLen = 2
			}
			val, _ := zooValue(e, Mix(c.Seed, 500+vi), vcfg, share)
			var tm map[string]reflect.Type
			var valid []byte
			var err error
			pi, _ := Guard(func() {
				var nm map[string]string
				tm, nm = hessian.ExtractTypeNameMap(val)
				valid, err = hessian.ToBytes(val, nm)
			})
			if pi != nil || err != nil || len(valid) == 0 {
				continue
			}
			root, p, perr := hspec.Parse(valid)
			if perr != nil {
				continue // C02's business
			}
			ms := c14typeMaps(tm, r)
			env.J(c.Idx, j)
			if c.Kind == "prefix" {
				for k := 0; k < len(valid); k++ {
					res.NT = append(res.NT, Hash64(string(valid[:k])+"|p"))
					c14run(env, &res, c, j, valid[:k], "complete", tm, []string{"prefix"})
				}
				res.Count("prefixes", int64(len(valid)))
				res.Sample(map[string]interface{}{"kind": "every prefix", "of": describe(val), "bytes": len(valid)})
				continue
			}
			in, op := mutate(r, valid, root, p)
			// sometimes stack a second mutation
			if r.Intn(4) == 0 {
				if root2, p2, err2 := hspec.Parse(in); err2 == nil {
					in, _ = mutate(r, in, root2, p2)
					op += "+"
				}
			}
			if len(in) == 0 {
				continue
			}
			if len(in) > 65536 {
				in = in[:65536]
			}
			res.NT = append(res.NT, Hash64(string(in)))
			res.Count("mutation="+op, 1)
			m := ms[r.Intn(len(ms))]
			c14run(env, &res, c, j, in, m.name, m.tm, []string{"mutation=" + op})
			if len(res.Samples) == 0 {
				res.Sample(map[string]interface{}{"kind": "mutation", "op": op, "valid": hexClip(valid), "mutated": hexClip(in), "typemap": m.name})
			}
		}
	}
	return res
}
