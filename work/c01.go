package work

import (
	"bytes"
	"fmt"
	"reflect"
	"strings"

	hessian "github.com/vogo/gohessian"

	"verif/hspec"
	"verif/mon"
	"verif/zoo"
)

// C01 — round trip decode(encode(v)) == v.
type c01 struct{}

func init() { Register(c01{}) }

func (c01) ID() string    { return "C01" }
func (c01) Level() string { return "exploration" }
func (c01) Rule() string {
	return "every zoo type (scalars, one struct per slice element kind and per map shape, embedded, custom-named, recursive, 24-class Bag, top-level slices/maps/scalars): zero values, seeded values (boundary tables for numbers, strings across form boundaries), every slice-bearing type at table lengths (thorough: every length 0..600), 1..25 classes per message. Maps extracted with ExtractTypeNameMap(v); calls through ToBytes/ToObject and Serializer.ToBytes/ToObject. Oracle: zoo.Equiv (documented normalisations only). Non-trivial = abstract value has >= 2 nodes; distinct by hash(type, canonical abstract value)."
}
func (c01) ProcOpts() Proc { return Proc{RlimitAS: 4 << 30, MaxStack: 256 << 20} }
func (c01) Cases(tier string, seed int64, kf *KnownFindings) []Case {
	return zooCases(tier, seed)
}

func (c01) Run(c Case, env *Env) Result {
	var res Result
	lo, hi := c.From, zooCount(c)
	if c.Sub >= 0 {
		lo, hi = c.Sub, c.Sub+1
	}
	// one Serializer and one pair of maps re-used for every value of the batch (the advertised
	// usage): a decoder or encoder that remembers anything about an earlier message shows up here
	var sharedSer hessian.Serializer
	sharedTM, sharedNM := map[string]reflect.Type{}, map[string]string{}
	if c.Kind == "rand" || c.Kind == "bag" || c.Kind == "len" {
		ok := true
		for j := lo; j < hi && ok; j++ {
			if v, _, skip := zooSub(c, j, env, "C01"); !skip {
				ok = mergeMaps(sharedTM, sharedNM, v)
			}
		}
		if ok && len(sharedTM) > 0 {
			sharedSer = hessian.NewSerializer(sharedTM, sharedNM)
		}
	}
	for j := lo; j < hi; j++ {
		val, feats, skip := zooSub(c, j, env, "C01")
		if skip {
			res.Skipped++
			continue
		}
		env.J(c.Idx, j)
		cc := c
		cc.Sub = j
		if !env.Replay {
			cc.Opt = avoidOpts(env, "C01")
		}
		res.Evals++
		for _, f := range feats {
			if len(f) > 4 && (f[:4] == "tag=" || f[:4] == "top=") {
				res.Count(f, 1)
			}
		}
		viol := func(class, detail string) {
			env.Viol(&res, Violation{Class: class, Features: feats, Detail: detail, Case: cc, Input: describe(val)})
		}
		o := roundTrip(val)
		if o.NameMap != nil {
			dn := safeDenote(val, o.NameMap)
			if dn != nil {
				if hspec.CountNodes(dn) >= 2 {
					res.NT = append(res.NT, Hash64(c.Type+"|"+hspec.Canon(dn)))
				}
				if len(res.Samples) == 0 && j > 0 {
					res.Sample(map[string]interface{}{"type": fmt.Sprintf("%T", val), "value": hspec.ShortString(dn), "wire": hexClip(o.Wire)})
				}
			}
		}
		switch {
		case o.Panic != nil:
			viol("panic@"+o.Stage, o.Panic.Class+": "+o.Panic.Msg)
			continue
		case o.EncErr != nil:
			viol("enc-error", o.EncErr.Error())
			continue
		case o.DecErr != nil:
			viol("dec-error", fmt.Sprintf("(%s) %v", hexClip(o.Wire), o.DecErr))
			continue
		}
		if d := zoo.Equiv(val, o.Dec, zoo.EquivOpts{}); d != "" {
			viol("mismatch", fmt.Sprintf("%s; wire %s", d, hexClip(o.Wire)))
			continue
		}
		res.Max("wire_bytes", int64(len(o.Wire)))
		// the same value with a name map that registers classes only: every slice travels as an
		// UNTYPED list and is converted to the field's type by the decoder
		if j%3 == 1 && !nestedSliceType(reflect.TypeOf(val), 0) {
			if rv := reflect.ValueOf(val); rv.Kind() == reflect.Struct || (rv.Kind() == reflect.Ptr && rv.Elem().Kind() == reflect.Struct) {
				nmU := copyNames(o.NameMap)
				for k, v := range nmU {
					if len(k) > 0 && k[0] == '[' || len(v) > 0 && v[0] == '[' {
						delete(nmU, k)
					}
				}
				pi, _ := Guard(func() {
					b, err := hessian.ToBytes(val, nmU)
					if err != nil {
						viol("untyped:enc-error", err.Error())
						return
					}
					d, err := hessian.ToObject(b, o.TypMap)
					if err != nil {
						viol("untyped:dec-error", fmt.Sprintf("(%s) %v", hexClip(b), err))
						return
					}
					if m := zoo.Equiv(val, d, zoo.EquivOpts{}); m != "" {
						viol("untyped:mismatch", fmt.Sprintf("%s; wire %s", m, hexClip(b)))
					}
				})
				if pi != nil {
					viol("untyped:panic", pi.Class+": "+pi.Msg)
				}
				res.Count("roundtrips_with_untyped_lists", 1)
			}
		}
		if sharedSer != nil {
			pi, _ := Guard(func() {
				b, err := sharedSer.ToBytes(val)
				if err != nil {
					viol("reused:enc-error", "re-used Serializer.ToBytes: "+err.Error())
					return
				}
				d, err := sharedSer.ToObject(b)
				if err != nil {
					viol("reused:dec-error", "re-used Serializer.ToObject: "+err.Error())
					return
				}
				if m := zoo.Equiv(val, d, zoo.EquivOpts{}); m != "" {
					viol("reused:mismatch", "re-used Serializer: "+m)
				}
			})
			if pi != nil {
				viol("reused:panic", pi.Class+": "+pi.Msg)
			}
			res.Count("roundtrips_on_a_reused_serializer", 1)
		}
		// second observe-at point: Serializer.ToBytes / ToObject must agree
		if j%4 == 0 {
			pi, _ := Guard(func() {
				ser := hessian.NewSerializer(o.TypMap, o.NameMap)
				b, err := ser.ToBytes(val)
				if err != nil {
					viol("enc-error", "Serializer.ToBytes: "+err.Error())
					return
				}
				d, err := ser.ToObject(b)
				if err != nil {
					viol("dec-error", "Serializer.ToObject: "+err.Error())
					return
				}
				if m := zoo.Equiv(val, d, zoo.EquivOpts{}); m != "" {
					viol("mismatch", "Serializer: "+m)
				}
			})
			if pi != nil {
				viol("panic@serializer", pi.Class+": "+pi.Msg)
			}
			res.Count("serializer_roundtrips", 1)
		}
	}
	return res
}

func describe(v interface{}) string {
	var s string
	func() {
		defer func() { recover() }()
		s = hspec.ShortString(zoo.Denote(v, map[string]string{}))
	}()
	return fmt.Sprintf("%T %s", v, s)
}

func safeDenote(v interface{}, nm map[string]string) (d *hspec.Value) {
	defer func() {
		if recover() != nil {
			d = nil
		}
	}()
	return zoo.Denote(v, nm)
}

// ---------------------------------------------------------------- C02

type c02 struct{}

func init() { Register(c02{}) }

func (c02) ID() string    { return "C02" }
func (c02) Level() string { return "exploration" }
func (c02) Rule() string {
	return "same generator as C01 (incl. custom class names via HessianCodecName). Every byte sequence emitted by ToBytes and by Encoder.WriteObject is parsed by the reference decoder written from the grammar (no bytes missing or left over) and compared with zoo.Denote(v, nameMap) by bisimulation plus identity on struct-pointer nodes: class names, lower-cased field names in declaration order, definition before use and definition index, registered list type name, true element count, ref ordinals. Non-trivial = abstract value has >= 2 nodes; distinct by hash(type, canonical abstract value)."
}
func (c02) ProcOpts() Proc { return Proc{RlimitAS: 4 << 30, MaxStack: 256 << 20} }
func (c02) Cases(tier string, seed int64, kf *KnownFindings) []Case {
	cs := zooCases(tier, seed)
	cs = append(cs, Case{Kind: "badutf8", Seed: Mix(seed, 90001), Count: len(badUTF8) * 5, Sub: -1})
	cs = append(cs, Case{Kind: "bigbin", Count: len(c09bigBin) * 2, Sub: -1})
	return cs
}

// Go strings that are not valid UTF-8. What such a string should denote is not specified; what IS
// specified is that whatever the encoder emits for it is one well-formed value with nothing
// missing or left over (an encode error is acceptable as well). The content of the strings is
// compared after replacing every invalid byte by U+FFFD and a difference there is only counted.
var badUTF8 = []string{"caf\xe9", "ab\xe4\xb8", "\xff", "\xc3", "a\x80b", "\xf0\x9f\x98", "\xed\xa0\x80", "ok\xc0\xaf", "\xe9t\xe9", "é\xe9", "\xe4\xb8\x96\xe4\xb8", "\x80\x80\x80\x80",
	strings.Repeat("a", 2047) + "\xe4\xb8", strings.Repeat("\xe9", 1030), strings.Repeat("z", 31) + "\xc3"}

func c02badUTF8(c Case, env *Env, res *Result) {
	lo, hi := subRange(c)
	for j := lo; j < hi; j++ {
		bad := badUTF8[j%len(badUTF8)]
		build := func(s string) interface{} {
			switch j / len(badUTF8) {
			case 0:
				return &zoo.WithInner{X: zoo.Inner{A: 3, S: s}, P: &zoo.Inner{A: 4, S: s}, N: 6}
			case 1:
				return &zoo.SlStr{V: []string{s, "next", s, "last"}}
			case 2:
				return &zoo.MpStrStr{M: map[string]string{s: "v"}}
			case 3:
				return []interface{}{s, int32(0), s, int32(16)}
			default:
				return &zoo.MpStrI32{M: map[string]int32{"k" + s: 0}}
			}
		}
		raw, twin := build(bad), build(string([]rune(bad)))
		env.J(c.Idx, j)
		cc := c
		cc.Sub = j
		res.Evals++
		res.NT = append(res.NT, Hash64(fmt.Sprintf("badutf8|%d", j)))
		feats := []string{"invalid-utf8-string", fmt.Sprintf("shape=%d", j/len(badUTF8))}
		var wire []byte
		var nm map[string]string
		var err error
		pi, _ := Guard(func() {
			_, nm = hessian.ExtractTypeNameMap(raw)
			wire, err = hessian.ToBytes(raw, copyNames(nm))
		})
		switch {
		case pi != nil:
			env.Viol(res, Violation{Class: "panic@encode", Features: feats, Detail: pi.Msg, Case: cc, Input: fmt.Sprintf("%q", bad)})
		case err != nil:
			res.Count("invalid_utf8_rejected_with_error", 1)
		default:
			res.Count("invalid_utf8_strings_encoded", 1)
			cls, d := wireCheck(twin, nm, wire, nil)
			if cls == "wire-mismatch:string" || cls == "wire-mismatch:map-key" {
				res.Count("invalid_utf8_content_differs_from_U+FFFD_replacement(not judged)", 1)
			} else if cls != "" {
				env.Viol(res, Violation{Class: cls, Features: feats, Detail: fmt.Sprintf("string %q: %s", bad, d), Case: cc, Input: fmt.Sprintf("%q", bad)})
			}
		}
	}
}

// wireCheck parses emitted bytes and compares them with the intended abstract value.
// It returns (failure class, detail) or ("", "").
func wireCheck(val interface{}, nameMap map[string]string, wire []byte, res *Result) (string, string) {
	want := safeDenote(val, nameMap)
	if want == nil {
		return "", ""
	}
	got, p, err := hspec.Parse(wire)
	if err != nil {
		return parseErrClass(err), fmt.Sprintf("reference decoder rejects %s: %v", hexClip(wire), err)
	}
	if res != nil {
		res.Max("class_defs_in_stream", int64(len(p.Classes)))
		res.Max("containers_in_stream", int64(len(p.Refs)))
		res.Count("wire_bytes_parsed", int64(len(wire)))
		hspec.Walk(got, func(n *hspec.Value) {
			if n.Ann != nil {
				res.Count("form:"+n.Ann.Form, 1)
			}
		})
	}
	if p.LegacyBin > 0 && res != nil {
		res.Count("legacy_x62_chunks_accepted", int64(p.LegacyBin))
	}
	if d, tag := hspec.BisimTag(want, got, hspec.CmpOpts{NullEmpty: true, IgnoreMapType: true}); d != "" {
		return "wire-mismatch:" + tag, fmt.Sprintf("%s; intended %s; wire %s", d, hspec.ShortString(want), hexClip(wire))
	}
	return "", ""
}

func (c02) Run(c Case, env *Env) Result {
	var res Result
	if c.Kind == "badutf8" {
		c02badUTF8(c, env, &res)
		return res
	}
	if c.Kind == "bigbin" {
		// byte arrays around the largest length one chunk header can announce, alone and in a struct
		lo, hi := subRange(c)
		for j := lo; j < hi; j++ {
			n := c09bigBin[j%len(c09bigBin)]
			var val interface{} = bytes.Repeat([]byte{byte(j + 1)}, n)
			if j >= len(c09bigBin) {
				val = &zoo.Scalars{S: "before", Bin: bytes.Repeat([]byte{byte(j + 1)}, n), I32: 7}
			}
			env.J(c.Idx, j)
			cc := c
			cc.Sub = j
			res.Evals++
			res.NT = append(res.NT, Hash64(fmt.Sprintf("bigbin|%d", j)))
			_, nm := hessian.ExtractTypeNameMap(val)
			var wire []byte
			var err error
			pi, _ := Guard(func() { wire, err = hessian.ToBytes(val, copyNames(nm)) })
			feats := []string{"big-binary", fmt.Sprintf("len=%d", n)}
			switch {
			case pi != nil:
				env.Viol(&res, Violation{Class: "panic@encode", Features: feats, Detail: pi.Msg, Case: cc})
			case err != nil:
				env.Viol(&res, Violation{Class: "enc-error", Features: feats, Detail: err.Error(), Case: cc})
			default:
				if cls, d := wireCheck(val, nm, wire, &res); cls != "" {
					env.Viol(&res, Violation{Class: cls, Features: feats, Detail: fmt.Sprintf("byte array of %d octets: %s", n, d), Case: cc})
				}
			}
		}
		return res
	}
	lo, hi := c.From, zooCount(c)
	if c.Sub >= 0 {
		lo, hi = c.Sub, c.Sub+1
	}
	var prev interface{} // the value of the previous sub-case: sent FIRST on a two-value stream
	for j := lo; j < hi; j++ {
		val, feats, skip := zooSub(c, j, env, "C02")
		if skip {
			res.Skipped++
			continue
		}
		if j > 0 && prev == nil && c.Sub >= 0 {
			prev, _, _ = zooSub(c, j-1, env, "C02") // replay of one sub-case: regenerate its predecessor
		}
		first := prev
		prev = val
		env.J(c.Idx, j)
		cc := c
		cc.Sub = j
		if !env.Replay {
			cc.Opt = avoidOpts(env, "C02")
		}
		res.Evals++
		viol := func(class, detail string) {
			env.Viol(&res, Violation{Class: class, Features: feats, Detail: detail, Case: cc, Input: describe(val)})
		}
		var wire, wire2 []byte
		var nameMap map[string]string
		var typMap map[string]reflect.Type
		var encErr, encErr2 error
		pi, _ := Guard(func() {
			typMap, nameMap = hessian.ExtractTypeNameMap(val)
			// a complete name map must not be written to: keep a private copy per call
			wire, encErr = hessian.ToBytes(val, copyNames(nameMap))
			w := &mon.CountingWriter{}
			if j%8 == 2 {
				w.GCEvery = 97
			}
			enc := hessian.NewEncoder(w, copyNames(nameMap))
			encErr2 = enc.WriteObject(val)
			wire2 = w.Buf.Bytes()
			res.Count("writer_calls", int64(w.Calls))
		})
		if pi != nil {
			viol("panic@encode", pi.Class+": "+pi.Msg)
			continue
		}
		if encErr != nil || encErr2 != nil {
			viol("enc-error", fmt.Sprintf("ToBytes: %v / WriteObject: %v", encErr, encErr2))
			continue
		}
		dn := safeDenote(val, nameMap)
		if dn != nil && hspec.CountNodes(dn) >= 2 {
			res.NT = append(res.NT, Hash64(c.Type+"|"+hspec.Canon(dn)))
		}
		if len(res.Samples) == 0 && j > 0 && dn != nil {
			res.Sample(map[string]interface{}{"type": fmt.Sprintf("%T", val), "intended": hspec.ShortString(dn), "wire": hexClip(wire)})
		}
		if cls, d := wireCheck(val, nameMap, wire, &res); cls != "" {
			viol(cls, "ToBytes: "+d)
			continue
		}
		if !bytes.Equal(wire, wire2) && !hasMultiEntryMap(reflect.ValueOf(val), 0) {
			viol("entrypoints-differ", fmt.Sprintf("ToBytes %s vs Encoder.WriteObject %s", hexClip(wire), hexClip(wire2)))
			continue
		}
		if cls, d := wireCheck(val, nameMap, wire2, nil); cls != "" {
			viol(cls, "Encoder.WriteObject: "+d)
		}
		// two values on ONE stream (Encoder.WriteObject twice): ordinals, class numbers and type
		// numbers keep counting across the values; the reference decoder reads the stream with one
		// parser and the second value must still denote val
		if j%2 == 1 && first != nil {
			tm2, nm2 := map[string]reflect.Type{}, map[string]string{}
			if mergeMaps(tm2, nm2, first) && mergeMaps(tm2, nm2, val) {
				w := &mon.CountingWriter{}
				var e1, e2 error
				pi, _ := Guard(func() {
					enc := hessian.NewEncoder(w, copyNames(nm2))
					e1 = enc.WriteObject(first)
					e2 = enc.WriteObject(val)
				})
				if pi == nil && e1 == nil && e2 == nil {
					res.Count("two_value_streams_parsed", 1)
					ps := hspec.NewParser(w.Buf.Bytes())
					_, perr := ps.Next()
					var g2 *hspec.Value
					if perr == nil {
						g2, perr = ps.Next()
					}
					want2 := safeDenote(val, nm2)
					switch {
					case perr != nil:
						viol(parseErrClass(perr), fmt.Sprintf("second value of a two-value stream (after %s): reference decoder rejects %s: %v", describe(first), hexClip(w.Buf.Bytes()), perr))
					case ps.Pos != len(w.Buf.Bytes()):
						viol("wire:leftover", fmt.Sprintf("two-value stream: %d bytes left over", len(w.Buf.Bytes())-ps.Pos))
					case want2 != nil:
						if d, tag := hspec.BisimTag(want2, g2, hspec.CmpOpts{NullEmpty: true, IgnoreMapType: true}); d != "" {
							viol("wire-mismatch:"+tag, fmt.Sprintf("second value of a two-value stream (first value: %s): %s; intended %s; stream %s", describe(first), d, hspec.ShortString(want2), hexClip(w.Buf.Bytes())))
						}
					}
				}
			}
		}
		// the same Go types under OTHER registered class names (a second name map in the same
		// process): the class definitions on the wire must carry the names of the map in use
		if j%3 == 0 && typMap != nil {
			nm2 := copyNames(nameMap)
			renamed := 0
			for goName, wireName := range nameMap {
				if t, ok := typMap[goName]; ok && t.Kind() == reflect.Struct && t != zoo.TimeType {
					nm2[goName] = wireName + ".v2"
					renamed++
				}
			}
			if renamed > 0 {
				var w3 []byte
				var e3 error
				pi, _ := Guard(func() { w3, e3 = hessian.ToBytes(val, copyNames(nm2)) })
				switch {
				case pi != nil:
					viol("panic@encode", "renamed classes: "+pi.Msg)
				case e3 != nil:
					viol("enc-error", "renamed classes: "+e3.Error())
				default:
					if cls, d := wireCheck(val, nm2, w3, nil); cls != "" {
						viol(cls, "with a second name map (class names + \".v2\"): "+d)
					}
				}
				res.Count("encodes_under_a_second_name_map", 1)
			}
		}
	}
	return res
}

func copyNames(m map[string]string) map[string]string {
	out := make(map[string]string, len(m))
	for k, v := range m {
		out[k] = v
	}
	return out
}

// hasMultiEntryMap: map iteration order makes bytes non-deterministic.
func hasMultiEntryMap(v reflect.Value, depth int) bool {
	return multiMap(v, map[uintptr]bool{})
}

func multiMap(v reflect.Value, seen map[uintptr]bool) bool {
	if !v.IsValid() {
		return false
	}
	switch v.Kind() {
	case reflect.Ptr:
		if v.IsNil() || seen[v.Pointer()] {
			return false
		}
		seen[v.Pointer()] = true
		return multiMap(v.Elem(), seen)
	case reflect.Interface:
		if v.IsNil() {
			return false
		}
		return multiMap(v.Elem(), seen)
	case reflect.Map:
		if v.Len() > 1 {
			return true
		}
		for _, k := range v.MapKeys() {
			if multiMap(v.MapIndex(k), seen) {
				return true
			}
		}
	case reflect.Slice, reflect.Array:
		for i := 0; i < v.Len(); i++ {
			if multiMap(v.Index(i), seen) {
				return true
			}
		}
	case reflect.Struct:
		if v.Type() == zoo.TimeType {
			return false
		}
		for i := 0; i < v.NumField(); i++ {
			if multiMap(v.Field(i), seen) {
				return true
			}
		}
	}
	return false
}

// nestedSliceType: does the type contain a slice or map whose element is itself a slice (other
// than []byte)?  An UNTYPED list can be converted to its destination only one level deep (the
// inner list has no destination type to go by), so the untyped variant leaves such types alone.
func nestedSliceType(t reflect.Type, depth int) bool {
	if depth > 8 {
		return false
	}
	isList := func(x reflect.Type) bool {
		for x.Kind() == reflect.Ptr {
			x = x.Elem()
		}
		return (x.Kind() == reflect.Slice || x.Kind() == reflect.Array) && x.Elem().Kind() != reflect.Uint8
	}
	switch t.Kind() {
	case reflect.Ptr:
		return nestedSliceType(t.Elem(), depth+1)
	case reflect.Slice, reflect.Array:
		if t.Elem().Kind() == reflect.Uint8 {
			return false
		}
		return isList(t.Elem()) || nestedSliceType(t.Elem(), depth+1)
	case reflect.Map:
		return isList(t.Elem()) || isList(t.Key()) || nestedSliceType(t.Elem(), depth+1)
	case reflect.Struct:
		if t == zoo.TimeType {
			return false
		}
		for i := 0; i < t.NumField(); i++ {
			if nestedSliceType(t.Field(i).Type, depth+1) {
				return true
			}
		}
	}
	return false
}
