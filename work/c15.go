package work

import (
	"bytes"
	"fmt"
	"io"
	"reflect"
	"strings"

	hessian "github.com/vogo/gohessian"

	"verif/hspec"
	"verif/mon"
	"verif/zoo"
)

// C15 — a failing destination writer always surfaces as an encode error.
type c15 struct{}

func init() { Register(c15{}) }

func (c15) ID() string    { return "C15" }
func (c15) Level() string { return "fault_enumeration" }
func (c15) Rule() string {
	return "for each value (every zoo shape at small sizes) a fault-free run counts the Write calls W of the encode call; then EVERY k in 1..W x fault kinds {error once, error from k on, short count + io.ErrShortWrite, short count + nil error, error together with a FULL count once / from k on} is injected at the k-th Write through Encoder.WriteTo, Encoder.WriteObject (1st, 2nd and 3rd value of a stream), Serializer.WriteTo and Serializer.Write, and through ONE used encoder / serializer / pooled serializer per value (history: a 10050-link chain, an unsupported value, a dead writer, a panicking writer; every faulted call is history for the next). The one-call entry points write to a destination that also offers WriteByte / WriteString; every other fault index fails with an error of the retryable kind (Temporary() / Timeout() true). Oracle: whenever the fault fired the call must return a non-nil error; when a call returns nil the bytes that reached the writer must equal the fault-free rendering. Non-trivial = W >= 2; distinct by (value hash, entry point, k, fault kind)."
}
func (c15) Exhaustive(tier string) (bool, string) {
	return true, "every write index k of every generated value (per value, per entry point, per fault kind)"
}

func (c15) Cases(tier string, seed int64, kf *KnownFindings) []Case {
	var cs []Case
	per := 2
	if tier == "thorough" {
		per = 150
	}
	for i, e := range zoo.Types {
		cs = append(cs, Case{Kind: "faults", Type: e.Name, Seed: Mix(seed, 300+i), Count: per, Sub: -1})
	}
	// payloads larger than any plausible internal piece size (64 KiB .. 300 KiB)
	cs = append(cs, Case{Kind: "big", Seed: Mix(seed, 299), Count: 6, Sub: -1})
	// maps keyed by interface{} with keys of SEVERAL Go types, and named (typed) maps, alone and inside containers
	cs = append(cs, Case{Kind: "maps", Seed: Mix(seed, 298), Count: 6, Sub: -1})
	return cs
}

var c15entries = []string{"Encoder.WriteTo", "Encoder.WriteObject#1", "Encoder.WriteObject#2", "Encoder.WriteObject#3", "Serializer.WriteTo", "Serializer.Write#2", "used Encoder.WriteTo", "used Serializer.WriteTo", "used pooled Serializer.WriteTo"}

// c15used: ONE encoder / serializer / pool per value for the "used" entry points. Before the first fault it
// has seen a history (a 10050-link chain, an unsupported value, a value onto a dead writer, a recovered
// panic from the caller's writer); afterwards every faulted call is history for the next one.
type c15used struct {
	enc  *hessian.Encoder
	ser  hessian.Serializer
	pool hessian.Pool
}

var c15deep = func() *zoo.Node {
	head := &zoo.Node{Val: 0}
	for i, n := 1, head; i < 10050; i++ {
		n.Next = &zoo.Node{Val: int32(i)}
		n = n.Next
	}
	return head
}()

type panickyWriter struct{}

func (panickyWriter) Write(p []byte) (int, error) { panic("c15: the caller's writer panics") }

func newC15used(nameMap map[string]string) *c15used {
	nm := copyNames(nameMap)
	nm["Node"] = "Node"
	u := &c15used{enc: hessian.NewEncoder(nil, nm), ser: hessian.NewSerializer(nil, copyNames(nm)), pool: hessian.NewSerializerPool(1, nil, copyNames(nm))}
	history := func(writeTo func(w io.Writer, v interface{}) error) {
		writeTo(io.Discard, c15deep)
		writeTo(io.Discard, []interface{}{int32(1), make(chan int)})
		writeTo(&mon.CountingWriter{Kind: mon.FaultFrom, K: 1}, []interface{}{"x", nil})
		Guard(func() { writeTo(panickyWriter{}, map[string]interface{}{"k": []interface{}{nil}}) })
	}
	history(u.enc.WriteTo)
	history(u.ser.WriteTo)
	ps := u.pool.Get().(hessian.Serializer)
	history(ps.WriteTo)
	u.pool.Return(ps)
	return u
}

// c15call runs one encode call of `val` through an entry point on writer w.
// Values written before the call under test (prefix) go to a separate, healthy phase:
// the fault index is counted from the start of the call under test.
func c15call(entry int, val interface{}, nameMap map[string]string, w *mon.CountingWriter, kind mon.FaultKind, k int, used *c15used) error {
	arm := func() {
		w.Calls = 0
		w.Kind, w.K = kind, k
		// every other fault index fails with an error of the retryable kind (Temporary() / Timeout() true)
		w.TempErr = (k+entry)%2 == 0
	}
	// the one-call entry points get a destination that also has WriteByte / WriteString (bufio.Writer,
	// bytes.Buffer); the others a plain io.Writer
	var dst io.Writer = w
	if entry == 0 || entry == 4 {
		dst = mon.RichWriter{CountingWriter: w}
	}
	switch entry {
	case 0:
		e := hessian.NewEncoder(nil, nameMap)
		arm()
		return e.WriteTo(dst, val)
	case 1, 2, 3:
		e := hessian.NewEncoder(w, nameMap)
		for i := 1; i < entry; i++ {
			if err := e.WriteObject(val); err != nil {
				return fmt.Errorf("prefix write failed: %v", err)
			}
		}
		w.Buf.Reset()
		arm()
		return e.WriteObject(val)
	case 4:
		s := hessian.NewSerializer(nil, nameMap)
		arm()
		return s.WriteTo(dst, val)
	case 6:
		arm()
		return used.enc.WriteTo(w, val)
	case 7:
		arm()
		return used.ser.WriteTo(w, val)
	case 8:
		s := used.pool.Get().(hessian.Serializer)
		defer used.pool.Return(s)
		arm()
		return s.WriteTo(w, val)
	default:
		s := hessian.NewSerializer(nil, nameMap)
		if err := s.WriteTo(w, val); err != nil {
			return fmt.Errorf("prefix write failed: %v", err)
		}
		w.Buf.Reset()
		arm()
		return s.Write(val)
	}
}

func (c15) Run(c Case, env *Env) Result {
	var res Result
	e, _ := zoo.Lookup(c.Type)
	cfg := zooCfg(env, "C15")
	cfg.MaxLen, cfg.StrMax, cfg.MaxDepth, cfg.Lens = 4, 12, 3, nil
	lo, hi := subRange(c)
	kinds := []mon.FaultKind{mon.FaultOnce, mon.FaultFrom, mon.FaultShortErr, mon.FaultShortNil, mon.FaultFullErrOnce, mon.FaultFullErrFrom}
	for j := lo; j < hi; j++ {
		if c.Kind != "big" && c.Kind != "maps" && typeAvoided(env, "C15", e) && !env.Replay {
			res.Skipped++
			continue
		}
		share := 0.0
		if e.Has("recursive") {
			share = 0.3
		}
		var val interface{}
		var feats []string
		if c.Kind == "maps" {
			feats = []string{"map-shapes"}
			mixed := map[interface{}]interface{}{int32(1): "a", "k": int32(2), true: nil, int64(1) << 40: []interface{}{nil}}
			switch j % 6 {
			case 0:
				val = mixed
			case 1:
				val = []interface{}{mixed, "tail", nil}
			case 2:
				val = &zoo.MpIface{M: mixed}
			case 3:
				val = zoo.NamedMap{"a": 1, "b": 2}
			case 4:
				val = []interface{}{zoo.NamedMap{"a": 1}, zoo.NamedMap{"b": 2}, nil}
			default:
				val = &zoo.NamedMapHolder{M: zoo.NamedMap{"k": 5, "j": 6}, N: 1}
			}
		} else if c.Kind == "big" {
			n := 70000 + 40000*j
			feats = []string{"big-payload"}
			switch j % 3 {
			case 0:
				val = strings.Repeat("s", n)
			case 1:
				val = &zoo.Scalars{S: "x", Bin: bytes.Repeat([]byte{7}, n)}
			default:
				val = []interface{}{int32(1), strings.Repeat("é", n), bytes.Repeat([]byte{1}, n)}
			}
		} else {
			val, feats = zooValue(e, Mix(c.Seed, j), cfg, share)
		}
		env.J(c.Idx, j)
		cc := c
		cc.Sub = j
		var nameMap map[string]string
		pi, _ := Guard(func() { _, nameMap = hessian.ExtractTypeNameMap(val) })
		if pi != nil {
			continue
		}
		var used *c15used
		if pi, _ := Guard(func() { used = newC15used(nameMap) }); pi != nil {
			env.Viol(&res, Violation{Class: "panic", Features: feats, Detail: "building the used instances: " + pi.Msg, Case: cc, Input: describe(val)})
			continue
		}
		multi := hasMultiEntryMap(reflect.ValueOf(val), 0)
		vh := Hash64(describe(val))
		for entry := range c15entries {
			// fault-free run
			w := &mon.CountingWriter{}
			var err0 error
			pi, _ := Guard(func() { err0 = c15call(entry, val, copyNames(nameMap), w, mon.FaultNone, 0, used) })
			if pi != nil || err0 != nil {
				res.Count("fault_free_run_failed", 1) // C01/C13's business
				break
			}
			W := w.Calls
			clean := append([]byte(nil), w.Buf.Bytes()...)
			res.Max("max_writes_per_call", int64(W))
			res.Count("values_x_entrypoints", 1)
			if !multi {
				w2 := &mon.CountingWriter{}
				c15call(entry, val, copyNames(nameMap), w2, mon.FaultNone, 0, used)
				if w2.Calls != W {
					res.Inconclusive = append(res.Inconclusive, fmt.Sprintf("write count not stable for %s", describe(val)))
					continue
				}
			}
			for k := 1; k <= W; k++ {
				for _, kind := range kinds {
					res.Evals++
					if W >= 2 {
						res.NT = append(res.NT, vh^Hash64(fmt.Sprintf("%d|%d|%d", entry, k, kind)))
					}
					fw := &mon.CountingWriter{}
					var err error
					pi, _ := Guard(func() { err = c15call(entry, val, copyNames(nameMap), fw, kind, k, used) })
					ff := append([]string{"entry=" + c15entries[entry], "fault=" + mon.FaultNames[kind]}, feats...)
					if pi != nil {
						env.Viol(&res, Violation{Class: "panic", Features: ff, Detail: fmt.Sprintf("k=%d/%d: %s", k, W, pi.Msg), Case: cc, Input: describe(val)})
						continue
					}
					if !fw.Fired {
						res.Count("fault_not_reached", 1) // map order changed the write count
						continue
					}
					res.Count("faults_fired", 1)
					res.Count("fault="+mon.FaultNames[kind], 1)
					if err == nil {
						d := fmt.Sprintf("%s: write #%d of %d failed (%s, %d bytes lost) but the call returned nil", c15entries[entry], k, W, mon.FaultNames[kind], fw.Missed)
						if !bytes.Equal(fw.Buf.Bytes(), clean) && !multi {
							d += fmt.Sprintf("; writer holds %d bytes, fault-free rendering has %d", fw.Buf.Len(), len(clean))
							if _, _, perr := hspec.Parse(fw.Buf.Bytes()); perr != nil && entry != 2 && entry != 3 && entry != 5 {
								d += fmt.Sprintf(" (stream is not even well-formed: %v)", perr)
							}
						}
						env.Viol(&res, Violation{Class: "silent-success", Features: ff, Detail: d, Case: cc, Input: describe(val)})
					} else if len(res.Samples) == 0 {
						res.Sample(map[string]interface{}{"value": describe(val), "entry": c15entries[entry], "writes": W, "k": k, "fault": mon.FaultNames[kind], "error": MaskErr(err)})
					}
				}
			}
		}
	}
	return res
}

var _ = io.ErrShortWrite
