package work

import (
	"bufio"
	"bytes"
	"fmt"
	"time"
	"unsafe"

	hessian "github.com/vogo/gohessian"

	"verif/hspec"
	"verif/mon"
	"verif/zoo"
	"verif/zoo/alt2"
)

// C13 — encoding is fail-stop.
type c13 struct{}

func init() { Register(c13{}) }

func (c13) ID() string    { return "C13" }
func (c13) Level() string { return "exploration" }
func (c13) Rule() string {
	return "unsupported kinds {chan, func, complex64, complex128, uintptr, unsafe.Pointer, slices/maps/pointers/arrays/structs holding them} substituted at every position class {top, struct field (typed and interface-typed), list element first/middle/last, element of a long typed list of structs, field with a non-ASCII name, map key, map value, nested to depth 4, typed containers} through ToBytes, Encoder.WriteObject and Serializer.ToBytes. Oracle: the encode call must return a non-nil error and must not panic; the sibling value with the bad sub-value replaced by a supported one must encode and satisfy C02's wire oracle. Non-trivial = every case (a bad value at a position); distinct by (kind, position, entry point)."
}

type Carrier struct {
	A int32
	X interface{}
	Z string
}

// CarrierU: the interface-typed field has a name that starts with a non-ASCII capital letter
type CarrierU struct {
	A   int32
	Ünï interface{}
	Z   string
}

// WithHidden has an unexported field: reflection cannot read it, so the struct cannot be represented
type WithHidden struct {
	A int32
	b int32
	C string
}

// NamedAnyMap: a named (typed on the wire) map type with interface keys
type NamedAnyMap map[interface{}]interface{}

func (NamedAnyMap) HessianCodecName() string { return "test.AnyMap" }

// WithHiddenBase embeds a struct of an UNEXPORTED type: the embedded field is unexported, reflection cannot read it
type hiddenBase struct{ ID int32 }
type WithHiddenBase struct {
	hiddenBase
	Name string
}

// CarrierM holds the named map in a TYPED field (so that extraction registers its wire name)
type CarrierM struct {
	A int32
	M NamedAnyMap
	Z string
}

type BadChanStruct struct {
	N int32
	C chan int
}

type BadFuncStruct struct {
	F func()
	N int32
}

type BadCplxStruct struct {
	S string
	C complex128
}

// BadStamped embeds time.Time (first field) and carries an unsupported value next to it
type BadStamped struct {
	time.Time
	C chan int
}

type BadStamped2 struct {
	time.Time
	Note string
	F    func()
}

// named types of unsupported kinds that carry methods of well-known interfaces (error, fmt.Stringer,
// encoding.TextMarshaler): an encoder that dispatches on an interface before the kind must still refuse them
type ErrFunc func() error

func (ErrFunc) Error() string { return "errfunc" }

type ErrChan chan int

func (ErrChan) Error() string { return "errchan" }

type ErrPhase complex128

func (ErrPhase) Error() string  { return "errphase" }
func (ErrPhase) String() string { return "phase" }

type StrChan chan string

func (StrChan) String() string { return "strchan" }

type TextFunc func()

func (TextFunc) MarshalText() ([]byte, error) { return []byte("textfunc"), nil }
func (TextFunc) String() string               { return "textfunc" }

type ErrUintptr uintptr

func (ErrUintptr) Error() string { return "erruintptr" }

type badKind struct {
	name     string
	make     func() interface{}
	hashable bool
}

func badKinds() []badKind {
	x := 7
	return []badKind{
		{"chan", func() interface{} { return make(chan int, 1) }, true},
		{"func", func() interface{} { return func() {} }, false},
		{"complex64", func() interface{} { return complex64(1 + 2i) }, true},
		{"complex128", func() interface{} { return complex128(3 - 4i) }, true},
		{"uintptr", func() interface{} { return uintptr(12345) }, true},
		{"unsafe.Pointer", func() interface{} { return unsafe.Pointer(&x) }, true},
		{"[]chan", func() interface{} { return []chan int{make(chan int)} }, false},
		{"[]complex128", func() interface{} { return []complex128{1, 2i} }, false},
		{"map[string]func", func() interface{} { return map[string]func(){"f": func() {}} }, false},
		{"map[complex128]string", func() interface{} { return map[complex128]string{1i: "x"} }, false},
		{"*chan", func() interface{} { c := make(chan int); return &c }, true},
		{"[2]complex128", func() interface{} { return [2]complex128{1, 2} }, true},
		{"struct{chan}", func() interface{} { return BadChanStruct{N: 1, C: make(chan int)} }, true},
		{"*struct{func}", func() interface{} { return &BadFuncStruct{F: func() {}, N: 2} }, true},
		{"struct{complex}", func() interface{} { return &BadCplxStruct{S: "s", C: 1i} }, true},
		{"[]interface{chan}", func() interface{} { return []interface{}{int32(1), make(chan int)} }, false},
		{"struct{time.Time;chan}", func() interface{} { return BadStamped{Time: time.Unix(1500000000, 5e6), C: make(chan int)} }, true},
		{"*struct{time.Time;string;func}", func() interface{} {
			return &BadStamped2{Time: time.Unix(1500000000, 5e6), Note: "n", F: func() {}}
		}, true},
		{"[]chan*string", func() interface{} { return []chan *string{make(chan *string)} }, false},
		{"[]func()*int", func() interface{} { return []func() *int{func() *int { return nil }} }, false},
		{"[]chan*int32", func() interface{} { return []chan *int32{make(chan *int32)} }, false},
		{"[2]chan*float64", func() interface{} { return [2]chan *float64{make(chan *float64), nil} }, true},
		{"same-short-name-more-fields", func() interface{} {
			// two Go types called Inner on one stream; the second has a third field holding a channel
			return []interface{}{&zoo.Inner{A: 1, S: "a"}, &alt2.Inner{X: 2, Y: "b", Bad: make(chan int)}}
		}, false},
		{"struct{unexported field}", func() interface{} { return WithHidden{A: 1, b: 2, C: "c"} }, true},
		{"*struct{unexported field}", func() interface{} { return &WithHidden{A: 1, b: 2, C: "c"} }, true},
		{"struct{embedded unexported struct}", func() interface{} { return WithHiddenBase{hiddenBase{1}, "n"} }, true},
		{"*struct{embedded unexported struct}", func() interface{} { return &WithHiddenBase{hiddenBase{2}, "p"} }, true},
		{"nil-chan", func() interface{} { var c chan int; return c }, true},
		{"*nil-chan", func() interface{} { var c chan int; return &c }, true},
		{"nil-func", func() interface{} { var f func(); return f }, false},
		{"*nil-func", func() interface{} { var f func(); return &f }, true},
		{"*uintptr", func() interface{} { u := uintptr(7); return &u }, true},
		{"*complex128", func() interface{} { z := complex128(1i); return &z }, true},
		{"named-func+Error", func() interface{} { return ErrFunc(func() error { return nil }) }, false},
		{"named-chan+Error", func() interface{} { return ErrChan(make(chan int)) }, true},
		{"named-complex+Error+String", func() interface{} { return ErrPhase(1 + 1i) }, true},
		{"named-chan+String", func() interface{} { return StrChan(make(chan string)) }, true},
		{"named-func+MarshalText", func() interface{} { return TextFunc(func() {}) }, false},
		{"named-uintptr+Error", func() interface{} { return ErrUintptr(9) }, true},
		{"*named-chan+Error", func() interface{} { c := ErrChan(make(chan int)); return &c }, true},
	}
}

type badPos struct {
	name    string
	keyOnly bool
	build   func(bad interface{}) interface{}
}

func badPositions() []badPos {
	return []badPos{
		{"top", false, func(b interface{}) interface{} { return b }},
		{"field", false, func(b interface{}) interface{} { return &Carrier{A: 1, X: b, Z: "z"} }},
		{"field-by-value", false, func(b interface{}) interface{} { return Carrier{A: 1, X: b, Z: "z"} }},
		{"elem-first", false, func(b interface{}) interface{} { return []interface{}{b, int32(1), "two"} }},
		{"elem-middle", false, func(b interface{}) interface{} { return []interface{}{int32(1), b, int32(3)} }},
		{"elem-last", false, func(b interface{}) interface{} { return []interface{}{int32(1), "two", b} }},
		{"elem-long", false, func(b interface{}) interface{} {
			l := make([]interface{}, 300)
			for i := range l {
				l[i] = int32(i)
			}
			l[257] = b
			return l
		}},
		{"mapval", false, func(b interface{}) interface{} { return map[string]interface{}{"k": b} }},
		{"mapval-iface", false, func(b interface{}) interface{} { return map[interface{}]interface{}{int32(1): b, "x": int32(2)} }},
		{"mapkey", true, func(b interface{}) interface{} { return map[interface{}]interface{}{b: int32(1)} }},
		{"nested2", false, func(b interface{}) interface{} { return &Carrier{X: []interface{}{int32(1), b}} }},
		{"nested3", false, func(b interface{}) interface{} {
			return []interface{}{map[string]interface{}{"k": &Carrier{X: b}}}
		}},
		{"nested4", false, func(b interface{}) interface{} {
			return &Carrier{X: map[string]interface{}{"a": []interface{}{&Carrier{A: 4, X: b}}}}
		}},
		{"field-nonascii-name", false, func(b interface{}) interface{} { return &CarrierU{A: 1, Ünï: b, Z: "z"} }},
		{"elem-of-long-typed-list", false, func(b interface{}) interface{} {
			// a typed list (its type is in the extracted name map) of more than 7 elements; the bad
			// value sits inside one of the struct elements
			l := make([]*Carrier, 12)
			for i := range l {
				l[i] = &Carrier{A: int32(i), X: "ok", Z: "z"}
			}
			l[9].X = b
			return l
		}},
		{"elem-of-long-typed-list-by-value", false, func(b interface{}) interface{} {
			l := make([]Carrier, 300)
			for i := range l {
				l[i] = Carrier{A: int32(i), X: int32(i)}
			}
			l[288].X = b
			return l
		}},
		{"inside-self-containing-list", false, func(b interface{}) interface{} {
			// the container holds itself through an interface slot: anything that walks or prints it
			// while reporting the failure must cope with the cycle
			l := make([]interface{}, 3)
			l[0], l[1], l[2] = int32(1), l, b
			return l
		}},
		{"inside-self-containing-map", false, func(b interface{}) interface{} {
			m := map[string]interface{}{"v": b}
			m["self"] = m
			return []interface{}{m}
		}},
		{"key-of-named-map", true, func(b interface{}) interface{} {
			return &CarrierM{A: 1, M: NamedAnyMap{b: int32(1), "x": int32(2), "y": int32(3)}, Z: "z"}
		}},
		{"value-of-named-map", false, func(b interface{}) interface{} {
			return &CarrierM{A: 1, M: NamedAnyMap{"k": b, "x": int32(2), "y": int32(3)}, Z: "z"}
		}},
		{"key-of-named-map@top", true, func(b interface{}) interface{} {
			return NamedAnyMap{b: int32(1), "x": int32(2)}
		}},
		{"inside-zoo-slice", false, func(b interface{}) interface{} {
			return &zoo.SlIface{V: []interface{}{"a", b, int32(2)}}
		}},
		{"inside-zoo-map", false, func(b interface{}) interface{} {
			return &zoo.MpIface{M: map[interface{}]interface{}{"k": b}}
		}},
	}
}

func (c13) Cases(tier string, seed int64, kf *KnownFindings) []Case {
	var cs []Case
	ks := badKinds()
	ps := badPositions()
	for ki := range ks {
		cs = append(cs, Case{Kind: "bad", N: ki, Count: len(ps) * 3, Sub: -1})
	}
	cs = append(cs, Case{Kind: "typed", Count: 12, Sub: -1})
	for ki := range ks {
		// deeper positions and two more entry points (destinations that have Flush), indexed on their own
		cs = append(cs, Case{Kind: "deep", N: ki, Count: (len(deepPositions()) + len(ps)) * len(entryNames), Sub: -1})
	}
	return cs
}

func c13encode(entry int, val interface{}) (b []byte, err error) {
	_, nameMap := hessian.ExtractTypeNameMap(val)
	switch entry {
	case 0:
		return hessian.ToBytes(val, nameMap)
	case 1:
		w := &mon.CountingWriter{}
		e := hessian.NewEncoder(w, nameMap)
		err = e.WriteObject(val)
		return w.Buf.Bytes(), err
	case 3:
		// a buffering destination (it has Flush, as a gzip or TLS writer has): what the encoder does with it
		// must not replace the verdict on the value
		var buf bytes.Buffer
		bw := bufio.NewWriter(&buf)
		e := hessian.NewEncoder(bw, nameMap)
		err = e.WriteObject(val)
		bw.Flush()
		return buf.Bytes(), err
	case 4:
		var buf bytes.Buffer
		bw := bufio.NewWriter(&buf)
		err = hessian.NewSerializer(nil, nameMap).WriteTo(bw, val)
		bw.Flush()
		return buf.Bytes(), err
	default:
		s := hessian.NewSerializer(nil, nameMap)
		return s.ToBytes(val)
	}
}

var entryNames = []string{"ToBytes", "Encoder.WriteObject", "Serializer.ToBytes", "Encoder.WriteObject to a bufio.Writer", "Serializer.WriteTo to a bufio.Writer"}

// deepPositions: the unsupported value far below the top of the message (whatever an encoder does to the
// error on its way up - wrapping, bounding, summarising - it must still arrive)
func deepPositions() []badPos {
	nest := func(n int, mixed bool) func(b interface{}) interface{} {
		return func(b interface{}) interface{} {
			v := b
			for i := 0; i < n; i++ {
				switch {
				case !mixed || i%3 == 0:
					v = []interface{}{int32(i), v}
				case i%3 == 1:
					v = map[string]interface{}{"k": v}
				default:
					v = &Carrier{A: int32(i), X: v, Z: "z"}
				}
			}
			return v
		}
	}
	return []badPos{
		{"nested15-lists", false, nest(15, false)},
		{"nested16-lists", false, nest(16, false)},
		{"nested17-mixed", false, nest(17, true)},
		{"nested33-mixed", false, nest(33, true)},
		{"nested70-lists", false, nest(70, false)},
		{"nested300-mixed", false, nest(300, true)},
	}
}

func (c13) Run(c Case, env *Env) Result {
	var res Result
	ks := badKinds()
	ps := badPositions()
	lo, hi := subRange(c)
	one := func(j int, kind, pos string, entry int, val interface{}, sibling interface{}) {
		feats := []string{"kind=" + kind, "pos=" + pos, "entry=" + entryNames[entry]}
		cc := c
		cc.Sub = j
		env.J(c.Idx, j)
		res.Evals++
		res.NT = append(res.NT, Hash64(fmt.Sprint(feats)))
		res.Count("pos="+pos, 1)
		res.Count("kind="+kind, 1)
		var b []byte
		var err error
		pi, _ := Guard(func() { b, err = c13encode(entry, val) })
		switch {
		case pi != nil:
			env.Viol(&res, Violation{Class: "panic", Features: feats, Detail: fmt.Sprintf("%s of %s at %s panicked: %s", entryNames[entry], kind, pos, pi.Msg), Case: cc})
		case err == nil:
			what := "bytes " + hexClip(b)
			if rv, _, perr := hspec.Parse(b); perr != nil {
				what += fmt.Sprintf(" (not even well-formed: %v)", perr)
			} else {
				what += " (parses as " + hspec.ShortString(rv) + ")"
			}
			env.Viol(&res, Violation{Class: "silent-success", Features: feats, Detail: fmt.Sprintf("%s of %s at %s returned nil error: %s", entryNames[entry], kind, pos, what), Case: cc})
		default:
			res.Count("rejected_with_error", 1)
			if len(res.Samples) == 0 {
				res.Sample(map[string]interface{}{"kind": kind, "position": pos, "entry": entryNames[entry], "error": MaskErr(err)})
			}
		}
		// complementary half on the sibling (bad sub-value replaced by a supported one)
		if sibling != nil && entry == 0 {
			var sb []byte
			var serr error
			var nm map[string]string
			pi, _ := Guard(func() {
				_, nm = hessian.ExtractTypeNameMap(sibling)
				sb, serr = hessian.ToBytes(sibling, nm)
			})
			sf := append([]string{"sibling"}, feats...)
			switch {
			case pi != nil:
				env.Viol(&res, Violation{Class: "sibling-panic", Features: sf, Detail: pi.Msg, Case: cc})
			case serr != nil:
				env.Viol(&res, Violation{Class: "sibling-enc-error", Features: sf, Detail: serr.Error(), Case: cc})
			default:
				if cls, d := wireCheck(sibling, nm, sb, nil); cls != "" {
					env.Viol(&res, Violation{Class: "sibling-" + cls, Features: sf, Detail: d, Case: cc})
				}
				res.Count("siblings_encoded_and_wire_checked", 1)
			}
		}
	}
	switch c.Kind {
	case "bad":
		k := ks[c.N]
		for j := lo; j < hi; j++ {
			p := ps[j/3]
			entry := j % 3
			if p.keyOnly && !k.hashable {
				continue
			}
			one(j, k.name, p.name, entry, p.build(k.make()), p.build(int32(42)))
		}
	case "deep":
		k := ks[c.N]
		all := append(deepPositions(), ps...)
		ne := len(entryNames)
		for j := lo; j < hi; j++ {
			p := all[j/ne]
			entry := j % ne
			if p.keyOnly && !k.hashable {
				continue
			}
			if j/ne >= len(deepPositions()) && entry < 3 {
				continue // the shallow positions through the first three entry points are the "bad" cases
			}
			one(j, k.name, p.name, entry, p.build(k.make()), nil)
		}
	case "typed":
		ch := make(chan int)
		typed := []struct {
			name string
			v    interface{}
		}{
			{"[]chan@top", []chan int{ch}},
			{"map[string]chan@top", map[string]chan int{"c": ch}},
			{"struct{chan}@top", &BadChanStruct{C: ch}},
			{"[]struct{chan}", []BadChanStruct{{C: ch}}},
			{"[]*struct{func}", []*BadFuncStruct{{F: func() {}}}},
			{"map[string]complex128", map[string]complex128{"z": 1i}},
			{"[]complex64", []complex64{1, 2, 3}},
			{"[]uintptr", []uintptr{1, 2}},
			{"[]unsafe.Pointer", []unsafe.Pointer{unsafe.Pointer(&ch)}},
			{"map[string]unsafe.Pointer", map[string]unsafe.Pointer{"k": unsafe.Pointer(&ch)}},
			{"[]*unsafe.Pointer", []*unsafe.Pointer{new(unsafe.Pointer)}},
			{"[1]unsafe.Pointer", [1]unsafe.Pointer{unsafe.Pointer(&ch)}},
		}
		for j := lo; j < hi && j < len(typed); j++ {
			for entry := 0; entry < 3; entry++ {
				one(j, typed[j].name, "typed-container", entry, typed[j].v, nil)
			}
		}
	}
	return res
}
