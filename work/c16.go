package work

import (
	"fmt"
	"reflect"
	"sort"

	hessian "github.com/vogo/gohessian"

	"verif/zoo"
	"verif/zoo/alt"
)

// C16 — extraction terminates; maps are closed and mutually consistent.
type c16 struct{}

func init() { Register(c16{}) }

func (c16) ID() string    { return "C16" }
func (c16) Level() string { return "exploration" }
func (c16) Rule() string {
	return "every zoo type (incl. recursive, mutually recursive, embedded, custom-named, slices of slices, maps of structs) x witnesses {zero value, &T{}, empty non-nil containers, one element everywhere, fully populated, cyclic} -> ExtractTypeNameMap / TypeMapFrom / NameMapFrom / TypeMapOf must return (child process with a 64 MiB stack limit), every struct and slice type reachable from T by type (harness walk with a visited set) must be present under its wire name with nameMap[Go name] = wire name (custom name when declared) and typMap[wire name] = the Go type, and other values u of T must round-trip (C01 oracle) with the maps extracted from the witness. TypeMapOf is judged by separately tagged sub-claims (termination / struct types present / slice types present). Non-trivial = type has >= 1 reachable struct or slice type; distinct by (type, witness kind, seed)."
}

// "extraction terminates": a worker that computes for 40 CPU-seconds inside one journalled step (one
// extraction takes microseconds) is in a call that does not return - a violation, decided on CPU time
func (c16) ProcOpts() Proc {
	return Proc{RlimitAS: 4 << 30, MaxStack: 64 << 20, StallSec: 60, StallCPU: 40}
}

var c16witness = []string{"zero", "ptr-zero", "empty", "one", "full", "cyclic", "nil-elems", "iface-cycle", "interior"}

// ClashNode: a self-referential type that also holds a type with the SAME SHORT NAME as another
// type from another package (maps are keyed by bare type name, so only termination is judged here)
type ClashNode struct {
	P    *alt.Inner
	Q    *zoo.Inner
	Next *ClashNode
	Kids []*ClashNode
}

// Inner clashes by short name with zoo.Inner and alt.Inner and refers to itself
type Inner struct {
	Z    *zoo.Inner
	A    *alt.Inner
	Next *Inner
}

var c16termOnly = []interface{}{ClashNode{}, &ClashNode{}, Inner{}, &Inner{Next: &Inner{}}, &ClashNode{P: &alt.Inner{}, Q: &zoo.Inner{}, Next: &ClashNode{}}}

func (c16) Cases(tier string, seed int64, kf *KnownFindings) []Case {
	var cs []Case
	cs = append(cs, Case{Kind: "term", Count: len(c16termOnly), Sub: -1})
	nu := 6
	if tier == "thorough" {
		nu = 1000
	}
	for i, e := range zoo.Types {
		cs = append(cs, Case{Kind: "extract", Type: e.Name, Seed: Mix(seed, 900+i), Count: len(c16witness), N: nu, Sub: -1})
	}
	for i, e := range zoo.DeepTypes {
		cs = append(cs, Case{Kind: "extract", Type: e.Name, Seed: Mix(seed, 990+i), Count: len(c16witness), N: nu, Sub: -1})
	}
	for _, e := range zoo.Types {
		cs = append(cs, Case{Kind: "typemapof", Type: e.Name, Count: 1, Sub: -1})
	}
	for _, e := range zoo.DeepTypes {
		cs = append(cs, Case{Kind: "typemapof", Type: e.Name, Count: 1, Sub: -1})
	}
	return cs
}

func (c16) FatalFeatures(c Case) []string {
	return []string{"type=" + c.Type, "kind=" + c.Kind}
}

// reachable collects the struct and slice types a value of t can contain, by type.
func reachable(t reflect.Type, structs, slices map[reflect.Type]bool, seen map[reflect.Type]bool) {
	if seen[t] {
		return
	}
	seen[t] = true
	switch t.Kind() {
	case reflect.Ptr:
		reachable(t.Elem(), structs, slices, seen)
	case reflect.Struct:
		if t == zoo.TimeType {
			return
		}
		structs[t] = true
		for i := 0; i < t.NumField(); i++ {
			reachable(t.Field(i).Type, structs, slices, seen)
		}
	case reflect.Slice, reflect.Array:
		if t == reflect.TypeOf([]byte(nil)) {
			return // binary data; every other slice of uint8 kind (named, or of a named element type) is a list
		}
		if !rootIface(t) {
			slices[t] = true
		}
		reachable(t.Elem(), structs, slices, seen)
	case reflect.Map:
		reachable(t.Key(), structs, slices, seen)
		reachable(t.Elem(), structs, slices, seen)
	}
}

func rootIface(t reflect.Type) bool {
	for n := 0; n < 64 && (t.Kind() == reflect.Slice || t.Kind() == reflect.Array || t.Kind() == reflect.Ptr); n++ {
		t = t.Elem() // bounded: a self-referential list type (type T []T) has no root element
	}
	return t.Kind() == reflect.Interface
}

// newFilled: a zero value of t whose embedded pointers are set at every level of embedding (a promoted
// method must not be called through a nil embedded pointer)
func newFilled(t reflect.Type, depth int) reflect.Value {
	v := reflect.New(t).Elem()
	if t.Kind() == reflect.Struct && depth < 8 {
		for i := 0; i < t.NumField(); i++ {
			f := v.Field(i)
			if !t.Field(i).Anonymous || !f.CanSet() {
				continue
			}
			switch {
			case f.Kind() == reflect.Ptr && f.Type().Elem().Kind() == reflect.Struct:
				n := reflect.New(f.Type().Elem())
				n.Elem().Set(newFilled(f.Type().Elem(), depth+1))
				f.Set(n)
			case f.Kind() == reflect.Struct:
				f.Set(newFilled(f.Type(), depth+1))
			}
		}
	}
	return v
}

func customName(t reflect.Type) (string, bool) {
	v := newFilled(t, 0)
	if v.CanInterface() {
		if n, ok := v.Interface().(hessian.CodecNamable); ok {
			name := n.HessianCodecName()
			// a name promoted from an embedded struct is that struct's name, not the name of the type
			// around it (two classes cannot share one wire name): the statement's "the custom name when
			// the type declares one" is read as "declares itself"
			if t.Kind() == reflect.Struct {
				for i := 0; i < t.NumField(); i++ {
					f := t.Field(i)
					ft := f.Type
					if ft.Kind() == reflect.Ptr {
						ft = ft.Elem()
					}
					if f.Anonymous && ft.Kind() == reflect.Struct {
						if en, ok := newFilled(ft, 0).Interface().(hessian.CodecNamable); ok && en.HessianCodecName() == name {
							return "", false
						}
					}
				}
			}
			return name, true
		}
	}
	return "", false
}

func witness(e zoo.Entry, kind string, seed int64) (interface{}, bool) {
	cfg := zoo.DefaultCfg()
	cfg.Avoid["iface.struct"] = true
	share := 0.0
	switch kind {
	case "zero":
		return reflect.Zero(e.Type).Interface(), true
	case "ptr-zero":
		if e.Top || e.Type.Kind() != reflect.Struct {
			return nil, false
		}
		return reflect.New(e.Type).Interface(), true
	case "empty":
		cfg.NilProb, cfg.MaxLen = 1, 0
	case "one":
		cfg.NilProb, cfg.MaxLen, cfg.MinLen, cfg.MaxDepth = 0, 1, 1, 3
	case "full":
		cfg.NilProb, cfg.MaxLen, cfg.MinLen, cfg.MaxDepth = 0, 4, 1, 4
	case "cyclic":
		if !e.Has("recursive") {
			return nil, false
		}
		cfg.NilProb, cfg.MaxLen, cfg.MinLen = 0.05, 3, 1
		share = 0.5
	case "nil-elems":
		// containers that HAVE elements, all of them nil pointers (make([]*T, n))
		cfg.NilProb, cfg.MaxLen, cfg.MinLen, cfg.MaxDepth = 1, 3, 2, 3
	case "interior":
		// a pointer to the FIRST FIELD of a struct, met before the pointer to the struct itself: two objects of
		// different types at one address (an extraction that remembers addresses must remember the type too)
		if e.Name != "IOrder" {
			return nil, false
		}
		doc := &zoo.IDoc{Header: zoo.IHead{No: 1, Title: "t"}, Lines: []zoo.ILine{{Qty: 1, Item: "i"}}, Party: &zoo.IParty{Name: "p"}}
		return &zoo.IOrder{Head: &doc.Header, Doc: doc}, true
	case "iface-cycle":
		// generic containers that reach themselves through interface values (an attribute tree
		// whose children link back to the root): the walk must terminate on them as well
		l := []interface{}{int32(1), nil, "x"}
		l[1] = l
		root := map[string]interface{}{"name": "root"}
		child := map[string]interface{}{"parent": root}
		root["kids"] = []interface{}{child, l}
		gm := map[interface{}]interface{}{"k": int32(1)}
		gm["self"] = gm
		switch e.Name {
		case "SlIface":
			return &zoo.SlIface{V: []interface{}{root, l}}, true
		case "MpStrAny":
			return &zoo.MpStrAny{M: root}, true
		case "MpIface":
			return &zoo.MpIface{M: gm}, true
		case "top:[]interface {}":
			return l, true
		case "top:map[interface {}]interface {}":
			return gm, true
		}
		return nil, false
	}
	g := zoo.NewGen(seed, cfg)
	g.Share = share
	v := g.Value(e.Type)
	if kind == "empty" {
		makeEmptyContainers(v)
	}
	if !e.Top && e.Type.Kind() == reflect.Struct {
		p := reflect.New(e.Type)
		p.Elem().Set(v)
		return p.Interface(), true
	}
	return v.Interface(), true
}

// makeEmptyContainers replaces nil slices/maps of the top struct by empty non-nil ones.
func makeEmptyContainers(v reflect.Value) {
	switch v.Kind() {
	case reflect.Struct:
		if v.Type() == zoo.TimeType {
			return
		}
		for i := 0; i < v.NumField(); i++ {
			makeEmptyContainers(v.Field(i))
		}
	case reflect.Slice:
		if v.IsNil() && v.CanSet() {
			v.Set(reflect.MakeSlice(v.Type(), 0, 0))
		}
	case reflect.Map:
		if v.IsNil() && v.CanSet() {
			v.Set(reflect.MakeMap(v.Type()))
		}
	}
}

func (c16) Run(c Case, env *Env) Result {
	var res Result
	if c.Kind == "term" {
		return c16term(c, env)
	}
	e, _ := zoo.Lookup(c.Type)
	structs, slices := map[reflect.Type]bool{}, map[reflect.Type]bool{}
	reachable(e.Type, structs, slices, map[reflect.Type]bool{})
	base := []string{"type=" + e.Name}
	for _, t := range e.Tags {
		base = append(base, "tag="+t)
	}
	if typeAvoided(env, "C16", e) && !env.Replay && c.Kind == "extract" {
		res.Skipped++
		return res
	}
	lo, hi := subRange(c)
	switch c.Kind {
	case "typemapof":
		if env.Avoid("C16", "typemapof:type="+e.Name) && !env.Replay {
			res.Skipped++
			return res
		}
		cc := c
		cc.Sub = 0
		env.J(c.Idx, 0)
		res.Evals++
		if len(structs)+len(slices) > 0 {
			res.NT = append(res.NT, Hash64("typemapof|"+e.Name))
		}
		var tm map[string]reflect.Type
		pi, _ := Guard(func() { tm = hessian.TypeMapOf(e.Type) })
		if pi != nil {
			env.Viol(&res, Violation{Class: "panic", Features: append(base, "typemapof"), Detail: "TypeMapOf: " + pi.Msg, Case: cc})
			return res
		}
		res.Count("typemapof_returned", 1)
		for st := range structs {
			if got, ok := tm[st.Name()]; !ok || got != st {
				env.Viol(&res, Violation{Class: "typemapof:struct-missing", Features: append(base, "typemapof"), Detail: fmt.Sprintf("TypeMapOf(%v) lacks reachable struct type %v (keys %v)", e.Type, st, keysOf(tm)), Case: cc})
				break
			}
		}
		for sl := range slices {
			found := false
			for _, t := range tm {
				if t == sl {
					found = true
				}
			}
			if !found {
				env.Viol(&res, Violation{Class: "typemapof:slice-missing", Features: append(base, "typemapof", "typemapof:slices"), Detail: fmt.Sprintf("TypeMapOf(%v) has no entry for reachable slice type %v (keys %v)", e.Type, sl, keysOf(tm)), Case: cc})
				break
			}
		}
		res.Sample(map[string]interface{}{"TypeMapOf": e.Type.String(), "keys": keysOf(tm)})
		return res
	}
	// callers own the returned maps and may write to them (RegisterType / RegisterNameType do):
	// the maps of the previous extraction are scribbled on before the next one, so that an
	// implementation handing out shared (cached) map objects is exposed
	var prevT []map[string]reflect.Type
	var prevN []map[string]string
	scribble := func() {
		for _, m := range prevT {
			for k := range m {
				delete(m, k)
			}
			m["scribble"] = reflect.TypeOf(0)
		}
		for _, m := range prevN {
			for k := range m {
				delete(m, k)
			}
			m["scribble"] = "scribble"
		}
		prevT, prevN = nil, nil
	}
	for j := lo; j < hi; j++ {
		wk := c16witness[j]
		w, ok := witness(e, wk, Mix(c.Seed, j))
		if !ok {
			continue
		}
		scribble()
		feats := append(append([]string{}, base...), "witness="+wk)
		cc := c
		cc.Sub = j
		env.J(c.Idx, j)
		res.Evals++
		res.Count("witness="+wk, 1)
		if len(structs)+len(slices) > 0 {
			res.NT = append(res.NT, Hash64(fmt.Sprintf("%s|%s|%d", e.Name, wk, c.Seed)))
		}
		var tm, tm2 map[string]reflect.Type
		var nm, nm2 map[string]string
		pi, _ := Guard(func() {
			tm, nm = hessian.ExtractTypeNameMap(w)
			tm2 = hessian.TypeMapFrom(w)
			nm2 = hessian.NameMapFrom(w)
		})
		if pi != nil {
			env.Viol(&res, Violation{Class: "panic", Features: feats, Detail: "ExtractTypeNameMap: " + pi.Msg, Case: cc, Input: describe(w)})
			continue
		}
		res.Count("extractions_returned", 1)
		prevT, prevN = []map[string]reflect.Type{tm, tm2}, []map[string]string{nm, nm2}
		if len(tm2) != len(tm) || len(nm2) != len(nm) {
			env.Viol(&res, Violation{Class: "inconsistent", Features: feats, Detail: "TypeMapFrom/NameMapFrom disagree with ExtractTypeNameMap", Case: cc})
		}
		bad := false
		for st := range structs {
			goName := zoo.GoTypeName(st)
			wire := goName
			if cn, ok := customName(st); ok {
				wire = cn
			}
			switch {
			case nm[goName] != wire:
				env.Viol(&res, Violation{Class: "closure:struct", Features: feats, Detail: fmt.Sprintf("nameMap[%q] = %q, want %q (witness %s)", goName, nm[goName], wire, describe(w)), Case: cc})
				bad = true
			case tm[wire] != st:
				env.Viol(&res, Violation{Class: "closure:struct", Features: feats, Detail: fmt.Sprintf("typMap[%q] = %v, want %v", wire, tm[wire], st), Case: cc})
				bad = true
			}
			if bad {
				break
			}
		}
		for sl := range slices {
			if bad {
				break
			}
			goName := zoo.GoTypeName(sl)
			wire, ok := nm[goName]
			if cn, isCustom := customName(sl); isCustom && wire != cn {
				env.Viol(&res, Violation{Class: "closure:slice", Features: feats, Detail: fmt.Sprintf("nameMap[%q] = %q, want custom name %q", goName, wire, cn), Case: cc})
				bad = true
				break
			}
			if !ok {
				env.Viol(&res, Violation{Class: "closure:slice", Features: feats, Detail: fmt.Sprintf("nameMap has no entry for slice type %q (witness %s)", goName, describe(w)), Case: cc})
				bad = true
			} else if got := tm[wire]; got == nil || (got != sl && !sameListName(got, sl)) {
				env.Viol(&res, Violation{Class: "closure:slice", Features: feats, Detail: fmt.Sprintf("typMap[%q] = %v, want %v", wire, got, sl), Case: cc})
				bad = true
			}
		}
		res.Max("reachable_struct_types", int64(len(structs)))
		res.Max("reachable_slice_types", int64(len(slices)))
		if len(res.Samples) == 0 {
			res.Sample(map[string]interface{}{"type": e.Type.String(), "witness": wk, "nameMap": nm})
		}
		if bad {
			continue
		}
		// other values of the same type must round-trip with the maps of the witness
		// (C01's oracle; shapes listed by C01's open findings are C01's business)
		if typeAvoided(env, "C01", e) && !env.Replay {
			res.Skipped += int64(c.N)
			continue
		}
		cfg := zooCfg(env, "C01")
		for u := 0; u < c.N; u++ {
			share := 0.0
			if e.Has("recursive") {
				share = 0.3
			}
			uv, ufeats := zooValue(e, Mix(c.Seed, 1000+j*1000+u), cfg, share)
			res.Evals++
			var wire []byte
			var dec interface{}
			var e1, e2 error
			pi, _ := Guard(func() {
				wire, e1 = hessian.ToBytes(uv, copyNames(nm))
				if e1 == nil {
					dec, e2 = hessian.ToObject(wire, tm)
				}
			})
			uf := append(append([]string{"second-value"}, feats...), ufeats...)
			switch {
			case pi != nil:
				env.Viol(&res, Violation{Class: "second-value:panic", Features: uf, Detail: pi.Msg, Case: cc, Input: describe(uv)})
			case e1 != nil:
				env.Viol(&res, Violation{Class: "second-value:enc-error", Features: uf, Detail: e1.Error(), Case: cc, Input: describe(uv)})
			case e2 != nil:
				env.Viol(&res, Violation{Class: "second-value:dec-error", Features: uf, Detail: e2.Error(), Case: cc, Input: describe(uv)})
			default:
				if d := zoo.Equiv(uv, dec, zoo.EquivOpts{}); d != "" {
					env.Viol(&res, Violation{Class: "second-value:mismatch", Features: uf, Detail: d, Case: cc, Input: describe(uv)})
				} else {
					res.Count("second_values_roundtripped", 1)
				}
			}
			// the name map extracted from the WITNESS together with the type map taken from the TYPE:
			// the two extractions must agree on every wire name (types with custom names are registered
			// by TypeMapOf under their Go names only: not judged here)
			anyCustom := false
			for st := range structs {
				if _, ok := customName(st); ok {
					anyCustom = true
				}
			}
			for sl := range slices {
				if _, ok := customName(sl); ok {
					anyCustom = true
				}
			}
			if u == 0 && e1 == nil && e2 == nil && !e.Has("custom") && !anyCustom && e.Type.Kind() == reflect.Struct {
				var dec2 interface{}
				var e3 error
				pi, _ := Guard(func() { dec2, e3 = hessian.ToObject(wire, hessian.TypeMapOf(e.Type)) })
				mf := append(append([]string{"names-from-value+types-from-type"}, feats...), ufeats...)
				switch {
				case pi != nil:
					env.Viol(&res, Violation{Class: "mixed-maps:panic", Features: mf, Detail: pi.Msg, Case: cc, Input: describe(uv)})
				case e3 != nil:
					env.Viol(&res, Violation{Class: "mixed-maps:dec-error", Features: mf, Detail: "encoded with NameMapFrom(witness), decoded with TypeMapOf(type): " + e3.Error(), Case: cc, Input: describe(uv)})
				default:
					if d := zoo.Equiv(uv, dec2, zoo.EquivOpts{}); d != "" {
						env.Viol(&res, Violation{Class: "mixed-maps:mismatch", Features: mf, Detail: d, Case: cc, Input: describe(uv)})
					} else {
						res.Count("roundtrips_with_names_from_value_and_types_from_type", 1)
					}
				}
			}
		}
	}
	return res
}

// sameListName: []T and []*T are registered under one list name; either is accepted.
func sameListName(a, b reflect.Type) bool {
	strip := func(t reflect.Type) reflect.Type {
		for n := 0; n < 64 && (t.Kind() == reflect.Slice || t.Kind() == reflect.Ptr); n++ {
			t = t.Elem()
		}
		return t
	}
	return a.Kind() == reflect.Slice && b.Kind() == reflect.Slice && strip(a) == strip(b)
}

func keysOf(m map[string]reflect.Type) []string {
	var k []string
	for s := range m {
		k = append(k, s)
	}
	sort.Strings(k)
	return k
}

// c16term: termination only — every extraction function must RETURN for these types (a
// non-terminating walk overflows the 64 MiB stack and kills the worker, which the parent reports).
func c16term(c Case, env *Env) Result {
	var res Result
	lo, hi := subRange(c)
	for j := lo; j < hi && j < len(c16termOnly); j++ {
		env.J(c.Idx, j)
		res.Evals++
		res.NT = append(res.NT, Hash64(fmt.Sprintf("term|%d", j)))
		cc := c
		cc.Sub = j
		v := c16termOnly[j]
		pi, _ := Guard(func() {
			hessian.ExtractTypeNameMap(v)
			hessian.TypeMapFrom(v)
			hessian.NameMapFrom(v)
			hessian.TypeMapOf(reflect.TypeOf(v))
		})
		if pi != nil {
			env.Viol(&res, Violation{Class: "panic", Features: []string{"termination-only", "short-name-clash"}, Detail: fmt.Sprintf("%T: %s", v, pi.Msg), Case: cc})
		}
		res.Count("extractions_returned", 4)
	}
	res.Sample(map[string]interface{}{"kind": "termination on self-referential types with clashing short names", "types": "ClashNode{*alt.Inner,*zoo.Inner,*ClashNode}, work.Inner{*zoo.Inner,*alt.Inner,*Inner}"})
	return res
}
