package work

import (
	"bufio"
	"bytes"
	"fmt"
	"io"
	"math/rand"
	"reflect"
	"strings"

	hessian "github.com/vogo/gohessian"

	"verif/hspec"
	"verif/mon"
	"verif/zoo"
)

// C11 — a reused instance behaves like a fresh one; calls have no side effects on inputs.
type c11 struct{}

func init() { Register(c11{}) }

func (c11) ID() string    { return "C11" }
func (c11) Level() string { return "exploration" }
func (c11) Rule() string {
	return "histories (all of length <= 2 in quick / <= 3 in thorough over the 7-op alphabet, plus seeded histories to length 30) of {encode ok, encode failing, decode ok, decode of garbage, streaming write, streaming read, Reset} on ONE Encoder / Decoder / Serializer / pooled instance, followed by table-sensitive one-shot probe calls whose (bytes | value | error) are compared with the same probe on a freshly constructed instance: encode probes re-send a pointer and classes used earlier in the history (a stale reference or class table would emit a ref / skip a definition), decode probes are reference-encoded messages using class index 0, type index 0 and ref 0 (with and without defining them). After every call deep snapshots of the encoded value, the decoded byte slice and the complete caller-supplied maps are compared with snapshots taken before. Non-trivial = history length >= 1; distinct by (instance kind, history)."
}

var c11ops = []string{"enc-ok", "enc-fail", "dec-ok", "dec-garbage", "stream-write", "stream-read", "reset", "dec-panic-deep"}
var c11kinds = []string{"Serializer", "Encoder+Decoder", "pooled Serializer", "pooled Encoder+Decoder", "Encoder with a nil name map + Decoder", "Serializer with a nil type map"}

func (c11) Cases(tier string, seed int64, kf *KnownFindings) []Case {
	var cs []Case
	add := func(c Case) { c.Sub = -1; cs = append(cs, c) }
	maxLen := 2
	if tier == "thorough" {
		maxLen = 3
	}
	n := 0
	for l := 0; l <= maxLen; l++ {
		k := 1
		for i := 0; i < l; i++ {
			k *= len(c11ops)
		}
		n += k
	}
	for kind := range c11kinds {
		add(Case{Kind: "exh", K: kind, N: maxLen, Count: n})
	}
	nr, per := 8, 100
	if tier == "thorough" {
		nr, per = 256, 800
	}
	for i := 0; i < nr; i++ {
		add(Case{Kind: "rand", K: i % len(c11kinds), Seed: Mix(seed, i), Count: per})
	}
	add(Case{Kind: "oneshot", Count: 1})
	add(Case{Kind: "streams", Count: len(c11kinds) * 8})
	add(Case{Kind: "extract-pure", Count: len(zoo.Types)})
	return cs
}

// AltA / AltB: two Go types that the caller's name map sends to ONE wire class name
type AltA struct {
	X int32
	Y string
}
type AltB struct {
	P string
	Q int64
	R bool
}

type c11inst struct {
	enc *hessian.Encoder
	dec *hessian.Decoder
	ser hessian.Serializer
	w   *mon.CountingWriter
}

type c11world struct {
	tm          map[string]reflect.Type
	nm          map[string]string
	shared      *zoo.Inner
	values      []interface{} // encode inputs used by history ops (share `shared` and classes with the probes)
	wires       [][]byte      // valid decode inputs
	garbage     [][]byte
	encProbes   []interface{}
	decProbes   [][]byte
	nmExtracted map[string]string
	deepPanic   []byte
}

func newC11World() *c11world {
	w := &c11world{}
	w.shared = &zoo.Inner{A: 7, S: "shared"}
	w.values = []interface{}{
		&zoo.WithInner{X: zoo.Inner{A: 1, S: "x"}, P: w.shared, N: 5},
		w.shared,
		&zoo.SlPtr{V: []*zoo.Inner{w.shared, {A: 2, S: "y"}, w.shared}},
		&zoo.SlStr{V: []string{"a", "b"}},
		&zoo.Node{Val: 1},
		[]interface{}{int32(1), "two"},
		&zoo.Bag{P01: &zoo.K01{A: 1}, P02: &zoo.K02{A: 2}, P03: &zoo.K03{A: 3}, L03: []zoo.K03{{A: 4}}},
		"plain string",
		&AltA{X: 1, Y: "a"},
		&zoo.NamedHolder{One: zoo.NamedS{Key: "k", Value: 1}, Ptr: &zoo.NamedS{Key: "p", Value: 2}, Many: []zoo.NamedS{{Key: "m", Value: 3}}}, // custom class names
		&zoo.Scalars{S: strings.Repeat("s", 2100), Bin: bytes.Repeat([]byte{5}, 9000)},                                                        // chunked string and binary
		[]byte(strings.Repeat("b", 5000)),
		&zoo.NamedMapHolder{M: zoo.NamedMap{"k": 5, "j": 6}, N: 1},                                            // a typed ('M') map in a struct field
		&zoo.Bag{P01: &zoo.K01{A: 1}, P02: &zoo.K02{A: 2}, P03: &zoo.K03{A: 3}, P04: &zoo.K04{A: 4}, Tail: 5}, // five class definitions in one message
	}
	n := &zoo.Node{Val: 9}
	n.Next = n
	w.values = append(w.values, n)
	// slice fields that arrive as null and as a back-reference (whatever a decoder arms for "the list of this
	// field" must not wait for the next message)
	s12 := []int32{1, 2}
	w.values = append(w.values, &zoo.SlStr{}, &zoo.Shr{S1: s12, S2: s12}, &zoo.Scalars{S: "bin", Bin: []byte{1, 2, 3}})
	w.tm, w.nm = map[string]reflect.Type{}, map[string]string{}
	for _, v := range w.values {
		mergeMaps(w.tm, w.nm, v)
	}
	mergeMaps(w.tm, w.nm, &zoo.K01{})
	mergeMaps(w.tm, w.nm, []*zoo.Inner{})
	mergeMaps(w.tm, w.nm, []zoo.Inner{})
	// both Alt types are encoded under one class name (a legitimate caller-side mapping)
	w.nm["AltA"], w.nm["AltB"] = "shared.Alt", "shared.Alt"
	w.tm["shared.Alt"] = reflect.TypeOf(AltA{})
	// the type map need not know the wire name of a map type that only occurs as a struct field
	// (TypeMapOf-style maps do not): decoding is complete without it, so it must stay absent
	delete(w.tm, "com.example.Counts")
	// a class registered through a pointer type (reflect.TypeOf(&T{})): whatever the decoder makes of
	// such an entry, it must leave it as the caller wrote it
	w.tm["ptr.Registered"] = reflect.TypeOf(&zoo.Inner{})
	w.nmExtracted = copyNames(w.nm) // complete by construction: extracted from every value used below
	for _, v := range w.values {
		b, err := hessian.ToBytes(v, w.nm)
		if err == nil {
			w.wires = append(w.wires, b)
		}
	}
	// inputs that hold MORE than the one value a one-shot decode takes (a second message, trailing octets):
	// what the call leaves unread is not the next call's input
	w.wires = append(w.wires, append(append([]byte{}, w.wires[1]...), 0x03, 'e', 'n', 'd'), []byte{0x91, 0x92}, append(append([]byte{}, w.wires[3]...), w.wires[0]...))
	ptrReg, _ := hspec.Encode(hspec.Object("ptr.Registered", []string{"a", "s"}, hspec.Int(3), hspec.String("p")), hspec.Canonical{}, hspec.EncOpts{})
	w.wires = append(w.wires, ptrReg)
	unknownCls, _ := hspec.Encode(hspec.Object("no.such.Class", []string{"a", "b"}, hspec.Int(1), hspec.Int(2)), hspec.Canonical{}, hspec.EncOpts{})
	unknownList, _ := hspec.Encode(hspec.List("[no.such", hspec.Int(1)), hspec.Canonical{}, hspec.EncOpts{})
	defThenScalar := append(append([]byte{}, unknownCls[:len(unknownCls)-3]...), 0x90) // definition, then an int instead of an instance
	w.garbage = [][]byte{unknownCls, unknownList, defThenScalar, unknownCls[:len(unknownCls)-3], {0x60}, {0x51, 0x90}, {0x72, 0x90, 0x90, 0x90}, {'C', 0x01, 'a'}, {0x40}, {0x58, 0x92, 0x90}, {'S', 0x00, 0x05, 'a'}, {'O', 0x95}, {'M', 0x90}}
	w.encProbes = []interface{}{
		&zoo.WithInner{X: zoo.Inner{A: 3, S: "probe"}, P: w.shared, N: 6}, // re-sends `shared` and the classes WithInner / Inner
		w.shared,
		&zoo.SlPtr{V: []*zoo.Inner{w.shared}},
		n,
		&AltB{P: "p", Q: 2, R: true},           // same class name as AltA (sent in histories), other fields
		[]*zoo.Inner{w.shared, {A: 8, S: "z"}}, // a list whose header is written before any instance of its element class
		[]zoo.Inner{{A: 1, S: "v"}},
		&zoo.NamedMapHolder{M: zoo.NamedMap{"a": 1}, N: 2},
	}
	// decode probes (reference-encoded): definitions numbered from 0 on a fresh stream
	k01 := hspec.Object("K01", []string{"a"}, hspec.Int(11))
	l1 := hspec.List("[int32", hspec.Int(1))
	l2 := hspec.List("[int32", hspec.Int(2), hspec.Int(3))
	msg := hspec.List("", k01, l1, l2, k01)
	ch := hspec.FuncChooser(func(point string, n int) int {
		if point == "type" {
			return 1 // second occurrence of the type by index
		}
		return 0
	})
	p1, _ := hspec.Encode(msg, ch, hspec.EncOpts{})
	p2, _ := hspec.Encode(hspec.Object("Inner", []string{"s", "a"}, hspec.String("perm"), hspec.Int(5)), hspec.Canonical{}, hspec.EncOpts{})
	for i := 0; i < 300; i++ {
		w.deepPanic = append(w.deepPanic, 0x57)
	}
	w.deepPanic = append(w.deepPanic, 'H', 0x57, 0x90, 'Z', 0x91, 'Z')
	for i := 0; i < 300; i++ {
		w.deepPanic = append(w.deepPanic, 'Z')
	}
	var nested40 []byte
	for i := 0; i < 250; i++ {
		nested40 = append(nested40, 0x57)
	}
	nested40 = append(nested40, 0x90)
	for i := 0; i < 250; i++ {
		nested40 = append(nested40, 'Z')
	}
	legacyBin := []byte{0x62, 0x00, 0x02, 'h', 'i', 0x23, 'l', 'l', 'o'}                           // a legacy non-final binary chunk 'b' in a message WITHOUT class definitions
	javaList := append(append([]byte{0x72, 0x13}, "java.util.ArrayList"...), 0x01, 'a', 0x01, 'b') // a typed list whose type nobody registered
	// (the two unregistered typed lists go first: a probe that reads a registered typed list may consume what the history left behind)
	w.decProbes = [][]byte{javaList, unknownList, p1, p2, ptrReg, nested40, legacyBin, {0x60}, {0x51, 0x90}, {0x72, 0x90, 0x90, 0x91}, {'O', 0x90}, {0x79, 0x51, 0x91}}
	return w
}

func (w *c11world) newInst(kind int, pools *[3]hessian.Pool) *c11inst {
	in := &c11inst{w: &mon.CountingWriter{}}
	switch kind {
	case 0:
		in.ser = hessian.NewSerializer(w.tm, w.nm)
	case 1:
		in.enc = hessian.NewEncoder(nil, w.nm)
		in.dec = hessian.NewDecoder(nil, w.tm)
	case 2:
		in.ser = pools[2].Get().(hessian.Serializer)
	case 3:
		in.enc = pools[0].Get().(*hessian.Encoder)
		in.dec = pools[1].Get().(*hessian.Decoder)
	case 5:
		// no type map given: the decoder keeps its own; what the ENCODER half meets must not teach the decoder half
		in.ser = hessian.NewSerializer(nil, copyNames(w.nm))
	default:
		// no name map given: the encoder keeps its own (it registers class names as it meets them);
		// a used instance must still produce what a fresh one of the same kind produces
		in.enc = hessian.NewEncoder(nil, nil)
		in.dec = hessian.NewDecoder(nil, w.tm)
	}
	return in
}

func (in *c11inst) encode(v interface{}) ([]byte, error) {
	if in.ser != nil {
		return in.ser.ToBytes(v)
	}
	return in.enc.Encode(v)
}

func (in *c11inst) decode(b []byte) (interface{}, error) {
	if in.ser != nil {
		return in.ser.ToObject(b)
	}
	return in.dec.Decode(b)
}

// apply runs one history op; every call is wrapped by the side-effect snapshots.
func (w *c11world) apply(in *c11inst, op int, r *rand.Rand, snap func(what string, v interface{}, b []byte, f func())) {
	switch c11ops[op] {
	case "enc-ok":
		v := w.values[r.Intn(len(w.values))]
		snap("encode", v, nil, func() { in.encode(v) })
	case "enc-fail":
		v := []interface{}{w.shared, make(chan int), &zoo.Node{Val: 3}}
		snap("encode-failing", nil, nil, func() { in.encode(v) })
	case "dec-ok":
		b := w.wires[r.Intn(len(w.wires))]
		snap("decode", nil, b, func() { in.decode(b) })
	case "dec-garbage":
		b := w.garbage[r.Intn(len(w.garbage))]
		snap("decode-garbage", nil, b, func() { in.decode(b) })
	case "dec-panic-deep":
		// 300 nested lists around a map whose key is a list: the runtime panics (unhashable key) deep
		// inside the decoder and the entry point recovers; nothing of that depth may stay behind
		snap("decode-panicking-deep-inside", nil, w.deepPanic, func() { in.decode(w.deepPanic) })
	case "stream-write":
		v1, v2 := w.values[r.Intn(len(w.values))], w.values[r.Intn(len(w.values))]
		snap("stream-write", v1, nil, func() {
			in.w.Reset()
			if in.ser != nil {
				in.ser.WriteTo(in.w, v1)
				in.ser.Write(v2)
				in.ser.Write(v1)
			} else {
				in.enc.WriteTo(in.w, v1)
				in.enc.WriteObject(v2)
				in.enc.WriteObject(v1)
			}
		})
	case "stream-read":
		// a stream of two values sharing definitions
		st := append(append([]byte{}, w.wires[0]...), 0x51, 0x90)
		snap("stream-read", nil, st, func() {
			rd := mon.NewReader(st)
			if in.ser != nil {
				in.ser.ReadFrom(rd)
				in.ser.Read()
			} else {
				in.dec.ReadFrom(rd)
				in.dec.ReadObject()
			}
		})
	case "reset":
		if in.enc != nil {
			in.enc.Reset(in.w)
			in.dec.Reset(mon.NewReader(w.wires[0]))
			// leave tables dirty after the reset
			in.enc.WriteObject(w.values[0])
			in.dec.ReadObject()
		} else {
			in.w.Reset()
			in.ser.WriteTo(in.w, w.values[0])
			in.ser.ReadFrom(mon.NewReader(w.wires[0]))
		}
	}
}

func freshKind(k int) int {
	if k == 4 || k == 5 {
		return k
	}
	return k % 2
}

func valueSnapshot(v interface{}) string {
	d := safeDenote(v, map[string]string{})
	if d == nil {
		return fmt.Sprintf("%T", v)
	}
	return hspec.Canon(d)
}

func (c11) Run(c Case, env *Env) Result {
	var res Result
	// C11 compares masked error messages too (its probes are small fixed messages without
	// multi-entry maps, so their errors are a function of the call); a probe whose result on two
	// FRESH instances differs is not used as an oracle.
	errClassWithMessage = true
	if c.Kind == "oneshot" {
		c11oneshot(c, env, &res)
		return res
	}
	if c.Kind == "extract-pure" {
		c11extractPure(c, env, &res)
		return res
	}
	if c.Kind == "streams" {
		c11streams(c, env, &res)
		return res
	}
	w := newC11World()
	if !sameNames(w.nm, w.nmExtracted) {
		// the very first encodes over the freshly extracted (complete) name map wrote to it
		var added []string
		for k := range w.nm {
			if _, ok := w.nmExtracted[k]; !ok {
				added = append(added, k)
			}
		}
		env.Viol(&res, Violation{Class: "map-modified", Features: []string{"first-encode-over-extracted-map"}, Detail: fmt.Sprintf("encoding with a name map taken from ExtractTypeNameMap added entries to it: %v", added), Case: c})
	}
	pools := [3]hessian.Pool{hessian.NewEncoderPool(2, w.nm), hessian.NewDecoderPool(2, w.tm), hessian.NewSerializerPool(2, w.tm, w.nm)}
	nmSnap := copyNames(w.nm)
	tmSnap := map[string]reflect.Type{}
	for k, v := range w.tm {
		tmSnap[k] = v
	}
	lo, hi := subRange(c)
	for j := lo; j < hi; j++ {
		// history
		var hist []int
		r := rand.New(rand.NewSource(Mix(c.Seed, j)))
		if c.Kind == "exh" {
			k := j
			for l := 0; l <= c.N; l++ {
				n := 1
				for i := 0; i < l; i++ {
					n *= len(c11ops)
				}
				if k < n {
					for i := 0; i < l; i++ {
						hist = append(hist, k%len(c11ops))
						k /= len(c11ops)
					}
					break
				}
				k -= n
			}
		} else {
			for n := r.Intn(31); n > 0; n-- {
				hist = append(hist, r.Intn(len(c11ops)))
			}
		}
		hs := ""
		for _, o := range hist {
			hs += c11ops[o] + " "
		}
		feats := []string{"instance=" + c11kinds[c.K]}
		cc := c
		cc.Sub = j
		env.J(c.Idx, j)
		res.Evals++
		if len(hist) > 0 {
			res.NT = append(res.NT, Hash64(fmt.Sprint(c.K, hist)))
		}
		res.Max("history_length", int64(len(hist)))
		viol := func(class, detail string) {
			env.Viol(&res, Violation{Class: class, Features: feats, Detail: fmt.Sprintf("after history [%s] on a %s: %s", hs, c11kinds[c.K], detail), Case: cc})
		}
		snap := func(what string, v interface{}, b []byte, f func()) {
			var before string
			var bcopy []byte
			if v != nil {
				before = valueSnapshot(v)
			}
			if b != nil {
				bcopy = append([]byte{}, b...)
			}
			Guard(f) // a recoverable panic inside a history op is a result class of that op, not C11's business
			res.Count("calls_with_input_snapshots", 1)
			if v != nil && valueSnapshot(v) != before {
				viol("input-modified", what+" modified the value being encoded")
			}
			if b != nil && !bytes.Equal(b, bcopy) {
				viol("input-modified", what+" modified the bytes being decoded")
			}
			if !sameNames(w.nm, nmSnap) {
				added := ""
				for k := range w.nm {
					if _, ok := nmSnap[k]; !ok {
						added += fmt.Sprintf(" %q:%q", k, w.nm[k])
						delete(w.nm, k)
					}
				}
				viol("map-modified", fmt.Sprintf("%s wrote to the complete caller-supplied name map (%d -> %d entries; added%s)", what, len(nmSnap), len(w.nm), added))
			}
			if len(w.tm) != len(tmSnap) {
				viol("map-modified", what+" wrote to the complete caller-supplied type map")
			}
			for k, t := range tmSnap {
				if now := w.tm[k]; now != t {
					viol("map-modified", fmt.Sprintf("%s changed entry %q of the caller-supplied type map from %v to %v", what, k, t, now))
					w.tm[k] = t
				}
			}
		}
		in := w.newInst(c.K, &pools)
		pi, _ := Guard(func() {
			for _, op := range hist {
				w.apply(in, op, r, snap)
			}
		})
		if pi != nil {
			viol("panic@history", pi.Msg)
			continue
		}
		// probes: used instance vs fresh instance
		for pi, pv := range w.encProbes {
			fresh := w.newInst(freshKind(c.K), &pools) // fresh, never pooled
			var b1, b2 []byte
			var e1, e2 error
			p1, _ := Guard(func() { b1, e1 = in.encode(pv) })
			p2, _ := Guard(func() { b2, e2 = fresh.encode(pv) })
			res.Count("encode_probes", 1)
			c1, c2 := resultClassEnc(b1, e1, p1, false), resultClassEnc(b2, e2, p2, false)
			if c1 != c2 {
				fresh2 := w.newInst(freshKind(c.K), &pools)
				var b3 []byte
				var e3 error
				p3, _ := Guard(func() { b3, e3 = fresh2.encode(pv) })
				if resultClassEnc(b3, e3, p3, false) != c2 {
					res.Count("probes_not_reproducible_on_fresh_instances", 1)
					continue
				}
			}
			if c1 != c2 {
				viol("probe-differs:encode", fmt.Sprintf("encode probe #%d (%s): used instance -> %s (%s), fresh instance -> %s (%s)", pi, describe(pv), c1, hexClip(b1), c2, hexClip(b2)))
			}
		}
		for pi, pb := range w.decProbes {
			fresh := w.newInst(freshKind(c.K), &pools)
			var v1, v2 interface{}
			var e1, e2 error
			p1, _ := Guard(func() { v1, e1 = in.decode(pb) })
			p2, _ := Guard(func() { v2, e2 = fresh.decode(pb) })
			res.Count("decode_probes", 1)
			c1, c2 := resultClassDec(v1, e1, p1), resultClassDec(v2, e2, p2)
			if c1 != c2 {
				fresh2 := w.newInst(freshKind(c.K), &pools)
				var v3 interface{}
				var e3 error
				p3, _ := Guard(func() { v3, e3 = fresh2.decode(pb) })
				if resultClassDec(v3, e3, p3) != c2 {
					res.Count("probes_not_reproducible_on_fresh_instances", 1)
					continue
				}
			}
			if c1 != c2 {
				viol("probe-differs:decode", fmt.Sprintf("decode probe #%d (%x): used instance -> %s, fresh instance -> %s", pi, pb, c1, c2))
			}
		}
		if c.K == 2 || c.K == 3 {
			if in.ser != nil {
				pools[2].Return(in.ser)
			} else {
				pools[0].Return(in.enc)
				pools[1].Return(in.dec)
			}
		}
		if len(res.Samples) == 0 && len(hist) >= 2 {
			res.Sample(map[string]interface{}{"instance": c11kinds[c.K], "history": hs, "encode_probes": len(w.encProbes), "decode_probes": len(w.decProbes)})
		}
	}
	return res
}

// c11oneshot: the package-level one-shot functions are "instances" too: what an earlier call was given
// (a name map, a type map) must not show in a later call that is given nothing.
func c11oneshot(c Case, env *Env, res *Result) {
	inner := &zoo.Inner{A: 1, S: "x"}
	other := &zoo.Inner2{}
	renaming := map[string]string{"Inner": "com.acme.Renamed"}
	before := copyNames(renaming)
	enc := func(v interface{}, nm map[string]string) string {
		b, err := hessian.ToBytes(v, nm)
		return fmt.Sprintf("%x/%v", b, err != nil)
	}
	dec := func(b []byte, tm map[string]reflect.Type) string {
		v, err := hessian.ToObject(b, tm)
		return fmt.Sprintf("%T/%v", v, err != nil)
	}
	wire, _ := hessian.ToBytes(inner, nil)
	fresh := []string{enc(inner, nil), enc(other, nil), dec(wire, nil)}
	for round := 0; round < 40; round++ {
		res.Evals++
		enc(inner, renaming) // a call WITH maps ...
		dec(wire, map[string]reflect.Type{"Inner": reflect.TypeOf(zoo.Inner{})})
		got := []string{enc(inner, nil), enc(other, nil), dec(wire, nil)} // ... then calls without
		for i := range got {
			if got[i] != fresh[i] {
				env.Viol(res, Violation{Class: "differs-from-fresh", Features: []string{"one-shot functions"}, Detail: fmt.Sprintf("round %d: after ToBytes / ToObject calls WITH maps, a call without maps gives %s; before any such call it gave %s", round, got[i], fresh[i]), Case: c})
				return
			}
		}
		if !sameNames(renaming, before) {
			env.Viol(res, Violation{Class: "map-modified", Features: []string{"one-shot functions"}, Detail: fmt.Sprintf("round %d: a later one-shot call without a name map wrote to the name map of an EARLIER call: %v", round, renaming), Case: c})
			return
		}
	}
	res.NT = append(res.NT, Hash64("oneshot"), Hash64("oneshot2"))
	res.Count("one_shot_call_sequences", 40)
}

// c11streams: the stream entry points with the CALLER'S objects used again:
//   - a second message started with WriteTo / Reset on the very writer object the instance already has
//     (one connection, one buffer) must be the bytes a fresh instance writes;
//   - a one-shot decode between two reads of a caller-owned *bufio.Reader must leave that reader alone:
//     the next read of the stream - by the used instance and by the caller - gives what it would have given.
func c11streams(c Case, env *Env, res *Result) {
	w := newC11World()
	pools := [3]hessian.Pool{hessian.NewEncoderPool(2, w.nm), hessian.NewDecoderPool(2, w.tm), hessian.NewSerializerPool(2, w.tm, w.nm)}
	lo, hi := subRange(c)
	for j := lo; j < hi; j++ {
		kind, sc := j%len(c11kinds), j/len(c11kinds)
		cc := c
		cc.Sub = j
		res.Evals++
		res.NT = append(res.NT, Hash64(fmt.Sprint("streams", j)))
		feats := []string{"instance=" + c11kinds[kind], "caller-objects-reused"}
		viol := func(class, detail string) {
			env.Viol(res, Violation{Class: class, Features: feats, Detail: fmt.Sprintf("%s: %s", c11kinds[kind], detail), Case: cc})
		}
		in, fresh := w.newInst(kind, &pools), w.newInst(freshKind(kind), &pools)
		v1, v2 := w.values[(sc*3)%len(w.values)], w.values[(sc*5+1)%len(w.values)]
		pi, _ := Guard(func() {
			if sc%2 == 0 {
				// ---- same writer object for two messages
				buf, fbuf := &bytes.Buffer{}, &bytes.Buffer{}
				var e1, e2 error
				if in.ser != nil {
					in.ser.WriteTo(buf, v1)
					in.ser.Write(v2)
				} else {
					in.enc.WriteTo(buf, v1)
					in.enc.WriteObject(v2)
				}
				off := buf.Len()
				if in.ser != nil {
					e1 = in.ser.WriteTo(buf, v1)
					e2 = fresh.ser.WriteTo(fbuf, v1)
				} else if sc%4 == 0 {
					e1 = in.enc.WriteTo(buf, v1)
					e2 = fresh.enc.WriteTo(fbuf, v1)
				} else {
					in.enc.Reset(buf)
					e1 = in.enc.WriteObject(v1)
					fresh.enc.Reset(fbuf)
					e2 = fresh.enc.WriteObject(v1)
				}
				res.Count("second_messages_on_the_same_writer_object", 1)
				// (same bytes, or same length and same denotation: a multi-entry map may be written in either order)
				if b1, b2 := buf.Bytes()[off:], fbuf.Bytes(); (e1 != nil) != (e2 != nil) || (!bytes.Equal(b1, b2) && (len(b1) != len(b2) || resultClassEnc(b1, e1, nil, true) != resultClassEnc(b2, e2, nil, true))) {
					viol("probe-differs:encode", fmt.Sprintf("second message for %s started on the writer object the instance already had: %s (%v); a fresh instance writes %s (%v)", describe(v1), hexClip(buf.Bytes()[off:]), e1, hexClip(fbuf.Bytes()), e2))
				}
				return
			}
			// ---- a one-shot decode between two reads of a caller-owned bufio.Reader
			a, b := w.wires[(sc*3)%len(w.wires)], w.wires[(sc*5+1)%len(w.wires)]
			stream := append(append(append([]byte{}, a...), b...), 0x05, 't', 'r', 'a', 'i', 'l')
			br := bufio.NewReaderSize(bytes.NewReader(stream), 16+sc*500)
			oneShot := append(append([]byte{}, w.wires[1]...), 0x04, 't', 'a', 'i', 'l')
			// the reference: a fresh instance doing the same two stream reads on an identical reader, WITHOUT
			// the one-shot call in between
			br2 := bufio.NewReaderSize(bytes.NewReader(stream), 16+sc*500)
			var got, want interface{}
			var e1, e2 error
			if in.ser != nil {
				in.ser.ReadFrom(br)
				in.ser.ToObject(oneShot)
				got, e1 = in.ser.ReadFrom(br)
				fresh.ser.ReadFrom(br2)
				want, e2 = fresh.ser.ReadFrom(br2)
			} else {
				in.dec.ReadFrom(br)
				in.dec.Decode(oneShot)
				got, e1 = in.dec.ReadFrom(br)
				fresh.dec.ReadFrom(br2)
				want, e2 = fresh.dec.ReadFrom(br2)
			}
			res.Count("one_shot_decodes_between_reads_of_a_caller_owned_bufio_reader", 1)
			if c1, c2 := resultClassDec(got, e1, nil), resultClassDec(want, e2, nil); c1 != c2 {
				viol("probe-differs:decode", fmt.Sprintf("second message of a caller-owned *bufio.Reader after a one-shot decode on the same instance: %s; without the one-shot call in between a fresh instance reads %s", c1, c2))
				return
			}
			// what is left of the caller's reader is the caller's
			rest, _ := io.ReadAll(br)
			rest2, _ := io.ReadAll(br2)
			if !bytes.Equal(rest, rest2) {
				viol("input-modified", fmt.Sprintf("the caller's *bufio.Reader holds %x after the reads; without the one-shot call in between it holds %x", rest, rest2))
			}
		})
		if pi != nil {
			viol("panic@history", pi.Msg)
		}
	}
}

// c11extractPure: the extraction calls (ExtractTypeNameMap, TypeMapFrom, NameMapFrom) are calls on the value
// that is about to be encoded: they must leave it as it was (nil embedded pointers stay nil, nil containers
// stay nil), whether it is handed over by value, by pointer or inside a slice.
func c11extractPure(c Case, env *Env, res *Result) {
	lo, hi := subRange(c)
	for j := lo; j < hi && j < len(zoo.Types); j++ {
		e := zoo.Types[j]
		for _, wk := range []string{"zero", "ptr-zero", "nil-elems", "one"} {
			w, ok := witness(e, wk, Mix(int64(j), 11))
			if !ok {
				continue
			}
			forms := []interface{}{w}
			if rv := reflect.ValueOf(w); rv.IsValid() && rv.Kind() == reflect.Ptr && !rv.IsNil() && rv.Elem().Kind() == reflect.Struct {
				// the same struct as an element of a slice (settable through the slice)
				sl := reflect.MakeSlice(reflect.SliceOf(rv.Elem().Type()), 2, 2)
				sl.Index(0).Set(rv.Elem())
				forms = append(forms, sl.Interface())
			}
			for fi, v := range forms {
				res.Evals++
				res.NT = append(res.NT, Hash64(fmt.Sprint("extract-pure", e.Name, wk, fi)))
				cc := c
				cc.Sub = j
				before := valueSnapshot(v)
				pi, _ := Guard(func() {
					hessian.ExtractTypeNameMap(v)
					hessian.TypeMapFrom(v)
					hessian.NameMapFrom(v)
				})
				if pi != nil {
					continue // C16's business
				}
				res.Count("extraction_calls_with_input_snapshots", 3)
				if after := valueSnapshot(v); after != before {
					env.Viol(res, Violation{Class: "input-modified", Features: []string{"extraction", "type=" + e.Name, "witness=" + wk}, Detail: fmt.Sprintf("ExtractTypeNameMap / TypeMapFrom / NameMapFrom changed the value they were given (%s, %s witness, form %d): before %.300s, after %.300s", e.Name, wk, fi, before, after), Case: cc})
				}
			}
		}
	}
}
