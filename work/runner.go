package work

import (
	"bufio"
	"bytes"
	"encoding/json"
	"fmt"
	"os"
	"os/exec"
	"path/filepath"
	"runtime/debug"
	"sort"
	"strconv"
	"strings"
	"sync"
	"syscall"
	"time"

	"verif/hspec"
)

// ---------------------------------------------------------------- worker side

type outLine struct {
	T    string     `json:"t"` // "res" | "viol" | "done"
	Res  *Result    `json:"res,omitempty"`
	Viol *Violation `json:"viol,omitempty"`
}

type workerIO struct {
	journal *os.File
	out     *os.File
	mu      sync.Mutex
}

func (w *workerIO) line(l outLine) {
	b, _ := json.Marshal(l)
	w.mu.Lock()
	w.out.Write(append(b, '\n'))
	w.mu.Unlock()
}

// WorkerMain: vcheck worker <prop> <tier> <seed> <shard> <nshards> <resumeIdx> <resumeSub> <dir> <filter>
// filter: "plain" = cases without Opt race, "race" = only cases with Opt race, "all".
func WorkerMain(args []string) int {
	if len(args) < 9 {
		fmt.Fprintln(os.Stderr, "worker: bad args")
		return 2
	}
	prop, tier := args[0], args[1]
	seed, _ := strconv.ParseInt(args[2], 10, 64)
	shard, _ := strconv.Atoi(args[3])
	nsh, _ := strconv.Atoi(args[4])
	rIdx, _ := strconv.Atoi(args[5])
	rSub, _ := strconv.Atoi(args[6])
	dir := args[7]
	filter := args[8]
	w, ok := Get(prop)
	if !ok {
		fmt.Fprintln(os.Stderr, "worker: unknown property", prop)
		return 2
	}
	SilenceLibrary()
	verifDir := os.Getenv("VERIF_DIR")
	kf, err := LoadKF(verifDir)
	if err != nil {
		fmt.Fprintln(os.Stderr, "worker: known findings:", err)
		return 2
	}
	applyProc(w, filter == "race")
	jf, err := os.OpenFile(filepath.Join(dir, fmt.Sprintf("journal.%s.%d", filter, shard)), os.O_CREATE|os.O_WRONLY|os.O_APPEND, 0o644)
	if err != nil {
		fmt.Fprintln(os.Stderr, "worker:", err)
		return 2
	}
	of, err := os.OpenFile(filepath.Join(dir, fmt.Sprintf("out.%s.%d", filter, shard)), os.O_CREATE|os.O_WRONLY|os.O_APPEND, 0o644)
	if err != nil {
		fmt.Fprintln(os.Stderr, "worker:", err)
		return 2
	}
	wio := &workerIO{journal: jf, out: of}
	env := &Env{Tier: tier, Seed: seed, KF: kf, Race: filter == "race"}
	cases := w.Cases(tier, seed, kf)
	for i := range cases {
		cases[i].Idx = i
	}
	for _, c := range cases {
		isRace := c.HasOpt("race")
		if (filter == "race") != isRace && filter != "all" {
			continue
		}
		if c.Idx%nsh != shard || c.Idx < rIdx {
			continue
		}
		start := 0
		if c.Idx == rIdx {
			start = rSub
		}
		runOne(w, c, start, env, wio)
	}
	wio.line(outLine{T: "done"})
	return 0
}

func applyProc(w Workload, race bool) {
	if po, ok := w.(ProcOpts); ok {
		p := po.ProcOpts()
		if p.RlimitAS > 0 && !race {
			lim := syscall.Rlimit{Cur: p.RlimitAS, Max: p.RlimitAS}
			syscall.Setrlimit(syscall.RLIMIT_AS, &lim)
		}
		if p.MaxStack > 0 {
			debug.SetMaxStack(p.MaxStack)
		}
	}
}

// From is the first sub-case to run (resume after a fatal death); carried in Case.K2.
func runOne(w Workload, c Case, start int, env *Env, wio *workerIO) {
	c.From = start
	var jbuf []byte
	env.Journal = func(idx, sub int) {
		jbuf = jbuf[:0]
		jbuf = append(jbuf, 'B', ' ')
		jbuf = strconv.AppendInt(jbuf, int64(idx), 10)
		jbuf = append(jbuf, ' ')
		jbuf = strconv.AppendInt(jbuf, int64(sub), 10)
		jbuf = append(jbuf, '\n')
		wio.journal.Write(jbuf)
	}
	env.report = func(v Violation) { wio.line(outLine{T: "viol", Viol: &v}) }
	env.Journal(c.Idx, start)
	res := w.Run(c, env)
	res.Idx = c.Idx
	res.Viol = nil // already streamed
	wio.line(outLine{T: "res", Res: &res})
}

// Viol records a violation: it is streamed to the parent at once (so it survives a
// later fatal death in the same batch).
func (e *Env) Viol(r *Result, v Violation) {
	if len(v.Detail) > 600 {
		v.Detail = v.Detail[:600] + "..."
	}
	if len(v.Input) > 2000 {
		v.Input = v.Input[:2000] + "..."
	}
	r.nviol++
	if r.nviol > maxViolPerCase {
		r.ViolDropped++
		return
	}
	if e.report != nil {
		e.report(v)
	}
	r.Viol = append(r.Viol, v)
}

// ReplayMain: vcheck replaycase <prop> <casefile> : runs one case, prints the violations as JSON.
func ReplayMain(args []string) int {
	if len(args) < 2 {
		return 2
	}
	w, ok := Get(args[0])
	if !ok {
		return 2
	}
	SilenceLibrary()
	b, err := os.ReadFile(args[1])
	if err != nil {
		fmt.Fprintln(os.Stderr, err)
		return 2
	}
	var c Case
	if err := json.Unmarshal(b, &c); err != nil {
		fmt.Fprintln(os.Stderr, err)
		return 2
	}
	kf, _ := LoadKF(os.Getenv("VERIF_DIR"))
	race := os.Getenv("VERIF_IS_RACE") == "1"
	applyProc(w, race)
	env := &Env{Tier: "quick", Seed: 1, KF: kf, Race: race, Replay: true}
	env.Journal = func(int, int) {}
	if jp := os.Getenv("VERIF_REPLAY_JOURNAL"); jp != "" {
		// heartbeat for the parent's CPU bound (one byte per journalled step)
		if jf, err := os.OpenFile(jp, os.O_CREATE|os.O_WRONLY|os.O_APPEND, 0o644); err == nil {
			env.Journal = func(int, int) { jf.Write([]byte{'.'}) }
		}
	}
	res := w.Run(c, env)
	out, _ := json.Marshal(res)
	fmt.Println("REPLAY-RESULT " + string(out))
	return 0
}

// ---------------------------------------------------------------- parent side

// Aggregate is the merged outcome of all workers of one check run.
type Aggregate struct {
	Evals        int64
	NT           map[uint64]struct{}
	NTCount      int64
	Viol         []Violation
	ViolDropped  int64
	Inconclusive []string
	Obs          map[string]int64
	ObsMax       map[string]int64
	Samples      []interface{}
	Skipped      int64
	Restarts     int
	mu           sync.Mutex
}

func (a *Aggregate) merge(r *Result) {
	a.mu.Lock()
	defer a.mu.Unlock()
	a.Evals += r.Evals
	for _, h := range r.NT {
		a.NT[h] = struct{}{}
	}
	a.NTCount += r.NTCount
	a.ViolDropped += r.ViolDropped
	a.Inconclusive = append(a.Inconclusive, r.Inconclusive...)
	for k, v := range r.Obs {
		a.Obs[k] += v
	}
	for k, v := range r.ObsMax {
		if v > a.ObsMax[k] {
			a.ObsMax[k] = v
		}
	}
	if len(a.Samples) < 6 {
		a.Samples = append(a.Samples, r.Samples...)
	}
	a.Skipped += r.Skipped
}

type Runner struct {
	VerifDir string
	Bin      string
	RaceBin  string
	CoverBin string
	Prop     string
	Tier     string
	Seed     int64
	W        Workload
	KF       *KnownFindings
	workDir  string
}

func fatalKind(stderr string) string {
	switch {
	case strings.Contains(stderr, "out of memory") || strings.Contains(stderr, "cannot allocate memory"):
		return "fatal:oom"
	case strings.Contains(stderr, "stack overflow") || strings.Contains(stderr, "stack exceeds"):
		return "fatal:stack-overflow"
	case strings.Contains(stderr, "concurrent map"):
		return "fatal:concurrent-map"
	case strings.Contains(stderr, "all goroutines are asleep"):
		return "fatal:deadlock"
	case strings.Contains(stderr, "checkptr"):
		return "fatal:checkptr"
	case strings.Contains(stderr, "fatal error:"):
		i := strings.Index(stderr, "fatal error:")
		l := stderr[i:]
		if j := strings.IndexByte(l, '\n'); j > 0 {
			l = l[:j]
		}
		return "fatal:" + MsgClass(strings.TrimPrefix(l, "fatal error: "))
	case strings.Contains(stderr, "panic:"):
		return "fatal:uncaught-panic"
	}
	return "fatal:died"
}

func tail(path string, n int) string {
	b, err := os.ReadFile(path)
	if err != nil {
		return ""
	}
	if len(b) > n {
		// keep the head (the fatal line is first) and some tail
		return string(b[:n/2]) + "\n...\n" + string(b[len(b)-n/2:])
	}
	return string(b)
}

func lastJournal(path string) (idx, sub int, ok bool) {
	b, err := os.ReadFile(path)
	if err != nil || len(b) == 0 {
		return 0, 0, false
	}
	lines := strings.Split(strings.TrimRight(string(b), "\n"), "\n")
	f := strings.Fields(lines[len(lines)-1])
	if len(f) < 3 || f[0] != "B" {
		return 0, 0, false
	}
	idx, _ = strconv.Atoi(f[1])
	sub, _ = strconv.Atoi(f[2])
	return idx, sub, true
}

func (r *Runner) env(race bool, extra ...string) []string {
	env := append(os.Environ(), "VERIF_DIR="+r.VerifDir)
	if race {
		env = append(env, "GORACE=halt_on_error=0 exitcode=0 log_path="+filepath.Join(r.workDir, "racelog"), "VERIF_IS_RACE=1")
	}
	return append(env, extra...)
}

// runShard drives one shard to completion, restarting the worker after fatal deaths.
func (r *Runner) runShard(filter string, shard, nsh int, cases map[int]Case, agg *Aggregate) {
	bin := r.Bin
	if filter == "race" {
		bin = r.RaceBin
	}
	stall := 600
	if po, ok := r.W.(ProcOpts); ok && po.ProcOpts().StallSec > 0 {
		stall = po.ProcOpts().StallSec
	}
	stallCPU := 0.0
	if po, ok := r.W.(ProcOpts); ok {
		stallCPU = po.ProcOpts().StallCPU
	}
	rIdx, rSub := 0, 0
	journal := filepath.Join(r.workDir, fmt.Sprintf("journal.%s.%d", filter, shard))
	outPath := filepath.Join(r.workDir, fmt.Sprintf("out.%s.%d", filter, shard))
	restarts, fatals, stalls, noReturn := 0, 0, 0, 0
	for {
		stderrPath := filepath.Join(r.workDir, fmt.Sprintf("stderr.%s.%d.%d", filter, shard, restarts))
		ef, _ := os.Create(stderrPath)
		cmd := exec.Command(bin, "worker", r.Prop, r.Tier, fmt.Sprint(r.Seed), fmt.Sprint(shard), fmt.Sprint(nsh), fmt.Sprint(rIdx), fmt.Sprint(rSub), r.workDir, filter)
		cmd.Env = r.env(filter == "race")
		cmd.Stdout = ef
		cmd.Stderr = ef
		if err := cmd.Start(); err != nil {
			agg.mu.Lock()
			agg.Inconclusive = append(agg.Inconclusive, "cannot start worker: "+err.Error())
			agg.mu.Unlock()
			ef.Close()
			return
		}
		done := make(chan error, 1)
		go func() { done <- cmd.Wait() }()
		stalled := false
		spinning := 0.0 // CPU-seconds the worker burned inside the journal entry it never left
		var lastSize int64 = -1
		lastChange := time.Now()
		cpuAtChange := procCPU(cmd.Process.Pid)
		var werr error
	wait:
		for {
			select {
			case werr = <-done:
				break wait
			case <-time.After(2 * time.Second):
				var sz int64
				if st, err := os.Stat(journal); err == nil {
					sz = st.Size()
				}
				if st, err := os.Stat(outPath); err == nil {
					sz += st.Size()
				}
				if sz != lastSize {
					lastSize = sz
					lastChange = time.Now()
					cpuAtChange = procCPU(cmd.Process.Pid)
				} else if spin := procCPU(cmd.Process.Pid) - cpuAtChange; time.Since(lastChange) > time.Duration(stall)*time.Second || (stallCPU > 0 && spin >= stallCPU) {
					stalled = true
					spinning = spin
					cmd.Process.Signal(syscall.SIGQUIT)
					time.Sleep(2 * time.Second)
					cmd.Process.Kill()
					werr = <-done
					break wait
				}
			}
		}
		ef.Close()
		// consume output written so far by this incarnation
		finished := r.consume(outPath, agg)
		if werr == nil && finished {
			return
		}
		idx, sub, ok := lastJournal(journal)
		if !ok {
			agg.mu.Lock()
			agg.Inconclusive = append(agg.Inconclusive, fmt.Sprintf("worker %s/%d died before its first case: %s", filter, shard, tail(stderrPath, 600)))
			agg.mu.Unlock()
			return
		}
		c := cases[idx]
		c.Sub = sub
		switch {
		case stalled && stallCPU > 0 && spinning >= stallCPU:
			// decided on CPU time, not on the wall clock: the worker was computing all that time
			// inside ONE journal entry (a workload that sets StallCPU bounds every call by far less)
			stalled = false
			v := Violation{Class: "budget:cpu-no-return", Case: c, Detail: fmt.Sprintf("the call did not return: the worker burned %.0f CPU-seconds inside this one case without finishing it (wall-clock watchdog %ds); %s", spinning, stall, firstLines(tail(stderrPath, 3000), 12))}
			if ff, ok := r.W.(interface{ FatalFeatures(Case) []string }); ok {
				v.Features = ff.FatalFeatures(c)
			}
			agg.mu.Lock()
			agg.Viol = append(agg.Viol, v)
			agg.Restarts++
			agg.mu.Unlock()
			noReturn++
		case stalled:
			stalls++
			agg.mu.Lock()
			agg.Inconclusive = append(agg.Inconclusive, fmt.Sprintf("watchdog: no progress for %ds in case %d sub %d (%.0f CPU-seconds used)", stall, idx, sub, spinning))
			agg.mu.Unlock()
		default:
			st := tail(stderrPath, 3000)
			kind := fatalKind(st)
			v := Violation{Class: kind, Case: c, Detail: "worker process died: " + firstLines(st, 12)}
			if ff, ok := r.W.(interface{ FatalFeatures(Case) []string }); ok {
				v.Features = ff.FatalFeatures(c)
			}
			agg.mu.Lock()
			agg.Viol = append(agg.Viol, v)
			agg.Restarts++
			agg.mu.Unlock()
		}
		restarts++
		if !stalled {
			fatals++
		}
		if fatals > 12 {
			// the verdict is already "violated"; do not spend the budget on dying again and again
			agg.mu.Lock()
			agg.Inconclusive = append(agg.Inconclusive, fmt.Sprintf("shard %s/%d: worker died %d times, remainder of the shard not run", filter, shard, fatals))
			agg.mu.Unlock()
			return
		}
		if noReturn > 3 {
			agg.mu.Lock()
			agg.Inconclusive = append(agg.Inconclusive, fmt.Sprintf("shard %s/%d: %d calls did not return, remainder of the shard not run", filter, shard, noReturn))
			agg.mu.Unlock()
			return
		}
		if stalls > 1 {
			agg.mu.Lock()
			agg.Inconclusive = append(agg.Inconclusive, fmt.Sprintf("shard %s/%d: watchdog fired %d times, remainder of the shard not run", filter, shard, stalls))
			agg.mu.Unlock()
			return
		}
		if restarts > 400 {
			agg.mu.Lock()
			agg.Inconclusive = append(agg.Inconclusive, fmt.Sprintf("shard %s/%d: more than 400 restarts, remainder not run", filter, shard))
			agg.mu.Unlock()
			return
		}
		rIdx, rSub = idx, sub+1
		if cases[idx].Count == 0 || rSub >= cases[idx].Count {
			rIdx, rSub = idx+1, 0
		}
		// truncate files for the next incarnation
		os.Remove(outPath)
	}
}

// procCPU: CPU-seconds (user + system) a process has used so far, from /proc (0 if unreadable).
func procCPU(pid int) float64 {
	b, err := os.ReadFile(fmt.Sprintf("/proc/%d/stat", pid))
	if err != nil {
		return 0
	}
	// fields after the parenthesised command name: state is field 3, utime 14, stime 15
	k := strings.LastIndexByte(string(b), ')')
	if k < 0 {
		return 0
	}
	f := strings.Fields(string(b[k+1:]))
	if len(f) < 13 {
		return 0
	}
	ut, _ := strconv.ParseFloat(f[11], 64)
	st, _ := strconv.ParseFloat(f[12], 64)
	return (ut + st) / 100
}

func firstLines(s string, n int) string {
	l := strings.Split(s, "\n")
	if len(l) > n {
		l = l[:n]
	}
	return strings.Join(l, " | ")
}

// consume reads an out file; true when the done marker was seen.
func (r *Runner) consume(path string, agg *Aggregate) bool {
	f, err := os.Open(path)
	if err != nil {
		return false
	}
	defer f.Close()
	sc := bufio.NewScanner(f)
	sc.Buffer(make([]byte, 1<<20), 1<<28)
	finished := false
	for sc.Scan() {
		var l outLine
		if err := json.Unmarshal(sc.Bytes(), &l); err != nil {
			continue
		}
		switch l.T {
		case "res":
			agg.merge(l.Res)
		case "viol":
			agg.mu.Lock()
			if len(agg.Viol) < 5000 {
				agg.Viol = append(agg.Viol, *l.Viol)
			} else {
				agg.ViolDropped++
			}
			agg.mu.Unlock()
		case "done":
			finished = true
		}
	}
	return finished
}

// replayChild runs one case in a child process and returns its result.
func (r *Runner) replayChild(c Case, race bool) (*Result, string, error) {
	bin := r.Bin
	if race {
		bin = r.RaceBin
	}
	cf := filepath.Join(r.workDir, fmt.Sprintf("replaycase.%d.json", time.Now().UnixNano()))
	b, _ := json.Marshal(c)
	os.WriteFile(cf, b, 0o644)
	defer os.Remove(cf)
	cmd := exec.Command(bin, "replaycase", r.Prop, cf)
	jp := cf + ".journal"
	defer os.Remove(jp)
	cmd.Env = r.env(race, "VERIF_REPLAY_JOURNAL="+jp)
	stallCPU := 0.0
	if po, ok := r.W.(ProcOpts); ok {
		stallCPU = po.ProcOpts().StallCPU
	}
	var out, errb bytes.Buffer
	cmd.Stdout = &out
	cmd.Stderr = &errb
	done := make(chan error, 1)
	if err := cmd.Start(); err != nil {
		return nil, "", err
	}
	go func() { done <- cmd.Wait() }()
	deadline := time.After(15 * time.Minute)
	var lastSize int64 = -1
	cpuAtChange := 0.0
wait:
	for {
		select {
		case <-done:
			break wait
		case <-deadline:
			cmd.Process.Kill()
			<-done
			return nil, "watchdog", fmt.Errorf("replay timed out")
		case <-time.After(time.Second):
			var sz int64
			if st, err := os.Stat(jp); err == nil {
				sz = st.Size()
			}
			cpu := procCPU(cmd.Process.Pid)
			if sz != lastSize {
				lastSize, cpuAtChange = sz, cpu
			} else if stallCPU > 0 && cpu-cpuAtChange >= stallCPU {
				// decided on CPU time: the child computed that long inside one journalled step
				cmd.Process.Kill()
				<-done
				return nil, fmt.Sprintf("budget:cpu-no-return the call did not return: %.0f CPU-seconds inside one step without finishing it", cpu-cpuAtChange), nil
			}
		}
	}
	for _, line := range strings.Split(out.String(), "\n") {
		if strings.HasPrefix(line, "REPLAY-RESULT ") {
			var res Result
			if err := json.Unmarshal([]byte(strings.TrimPrefix(line, "REPLAY-RESULT ")), &res); err != nil {
				return nil, "", err
			}
			return &res, "", nil
		}
	}
	// died
	st := errb.String() + out.String()
	return nil, fatalKind(st) + " " + firstLines(st, 8), nil
}

type replayFile struct {
	Property string    `json:"property"`
	Tier     string    `json:"tier"`
	Seed     int64     `json:"seed"`
	Viol     Violation `json:"violation"`
}

// Run executes the whole check; returns the process exit code.
func (r *Runner) Run() int {
	t0 := time.Now()
	if err := hspec.SelfTest(r.Seed, 3000); err != nil {
		fmt.Println("ERROR harness self-test failed:", err)
		return 2
	}
	r.workDir = filepath.Join(r.VerifDir, ".work", fmt.Sprintf("%s-%s-%d", r.Prop, r.Tier, os.Getpid()))
	os.MkdirAll(r.workDir, 0o755)
	defer os.RemoveAll(r.workDir)
	os.MkdirAll(filepath.Join(r.VerifDir, "evidence"), 0o755)
	os.MkdirAll(filepath.Join(r.VerifDir, "replay"), 0o755)

	agg := &Aggregate{NT: map[uint64]struct{}{}, Obs: map[string]int64{}, ObsMax: map[string]int64{}}
	exit := 0
	unexplained := 0
	replayN := 0
	writeReplay := func(v Violation) string {
		replayN++
		p := filepath.Join(r.VerifDir, "replay", fmt.Sprintf("%s-%s-%d.json", r.Prop, r.Tier, replayN))
		WriteJSON(p, replayFile{Property: r.Prop, Tier: r.Tier, Seed: r.Seed, Viol: v})
		return p
	}

	// 1. known-finding witnesses
	kfReproduced := map[string]int{}
	type replayOutcome struct {
		res  *Result
		died string
		err  error
	}
	replayed := map[string]replayOutcome{} // several findings may share one witness case: run it once
	for _, f := range r.KF.For(r.Prop) {
		w, err := r.KF.LoadWitness(f)
		if err != nil {
			fmt.Printf("ERROR cannot load witness of %s: %v\n", f.ID, err)
			return 2
		}
		ck, _ := json.Marshal(w.Case)
		ro, seen := replayed[string(ck)]
		if !seen {
			ro.res, ro.died, ro.err = r.replayChild(w.Case, w.Case.HasOpt("race"))
			replayed[string(ck)] = ro
		}
		res, died, err := ro.res, ro.died, ro.err
		if err != nil {
			agg.Inconclusive = append(agg.Inconclusive, "witness "+f.ID+": "+err.Error())
			continue
		}
		var viols []Violation
		if res != nil {
			viols = res.Viol
		} else {
			viols = []Violation{{Class: strings.Fields(died)[0], Case: w.Case, Detail: died}}
			if ff, ok := r.W.(interface{ FatalFeatures(Case) []string }); ok {
				viols[0].Features = ff.FatalFeatures(w.Case)
			}
		}
		switch f.Status {
		case "open":
			matched := false
			for i := range viols {
				if viols[i].Class == f.Failure {
					matched = true
				}
			}
			if matched {
				fmt.Printf("KNOWN-FINDING: property=%s %s %s\n", r.Prop, f.ID, f.What)
				kfReproduced[f.ID]++
			} else if len(viols) == 0 {
				fmt.Printf("NOT-REPRODUCED %s (the committed witness passed on this run)\n", f.ID)
			}
			for i := range viols {
				if viols[i].Class != f.Failure && r.KF.Explain(r.Prop, &viols[i]) == "" {
					p := writeReplay(viols[i])
					fmt.Printf("VIOLATION property=%s replay=%s\n", r.Prop, p)
					fmt.Printf("  witness of %s fails differently: %s: %s\n", f.ID, viols[i].Class, viols[i].Detail)
					unexplained++
				}
			}
		case "fixed":
			for i := range viols {
				if r.KF.Explain(r.Prop, &viols[i]) != "" {
					continue
				}
				p := writeReplay(viols[i])
				fmt.Printf("VIOLATION property=%s replay=%s\n", r.Prop, p)
				fmt.Printf("  fixed finding %s has returned: %s: %s\n", f.ID, viols[i].Class, viols[i].Detail)
				unexplained++
			}
			agg.Obs["fixed_witnesses_passing"]++
		}
	}

	// 2. the generated workload
	cases := r.W.Cases(r.Tier, r.Seed, r.KF)
	cmap := map[int]Case{}
	nPlain, nRace := 0, 0
	for i := range cases {
		cases[i].Idx = i
		cmap[i] = cases[i]
		if cases[i].HasOpt("race") {
			nRace++
		} else {
			nPlain++
		}
	}
	workers := 16
	if po, ok := r.W.(ProcOpts); ok && po.ProcOpts().Workers > 0 {
		workers = po.ProcOpts().Workers
	}
	var wg sync.WaitGroup
	launch := func(filter string, n int) {
		nsh := workers
		if n < nsh {
			nsh = n
		}
		for s := 0; s < nsh; s++ {
			wg.Add(1)
			go func(s int) {
				defer wg.Done()
				r.runShard(filter, s, nsh, cmap, agg)
			}(s)
		}
	}
	if nPlain > 0 {
		launch("plain", nPlain)
		wg.Wait()
	}
	if nRace > 0 {
		if r.RaceBin == "" {
			fmt.Println("ERROR race worker binary not built")
			return 2
		}
		launch("race", nRace)
		wg.Wait()
		r.collectRaces(agg)
	}
	if fin, ok := r.W.(Finisher); ok {
		fin.Finish(agg)
	}
	var coverage map[string]interface{}
	if r.CoverBin != "" {
		coverage = r.coveragePass()
	}

	// 3. verdicts
	explained := map[string]int{}
	type group struct {
		v Violation
		n int
	}
	groups := map[string]*group{}
	var order []string
	for i := range agg.Viol {
		v := &agg.Viol[i]
		if id := r.KF.Explain(r.Prop, v); id != "" {
			v.KF = id
			explained[id]++
			continue
		}
		key := v.Class + " " + strings.Join(v.Features, ",")
		if g, ok := groups[key]; ok {
			g.n++
		} else {
			groups[key] = &group{v: *v, n: 1}
			order = append(order, key)
		}
	}
	sort.Strings(order)
	if os.Getenv("VERIF_DUMP") != "" {
		if f, err := os.Create(filepath.Join(r.VerifDir, "replay", fmt.Sprintf("%s-%s-violations.jsonl", r.Prop, r.Tier))); err == nil {
			for i := range agg.Viol {
				b, _ := json.Marshal(agg.Viol[i])
				f.Write(append(b, '\n'))
			}
			f.Close()
		}
	}
	if len(order) > 0 {
		var sb strings.Builder
		for _, key := range order {
			g := groups[key]
			fmt.Fprintf(&sb, "x%d\t%s\t%s\n", g.n, key, g.v.Detail)
		}
		os.WriteFile(filepath.Join(r.VerifDir, "replay", fmt.Sprintf("%s-%s-summary.txt", r.Prop, r.Tier)), []byte(sb.String()), 0o644)
	}
	for i, key := range order {
		g := groups[key]
		unexplained += g.n
		if i < 10 {
			p := writeReplay(g.v)
			fmt.Printf("VIOLATION property=%s replay=%s\n", r.Prop, p)
			fmt.Printf("  %s (x%d) features=%v: %s\n", g.v.Class, g.n, g.v.Features, g.v.Detail)
		}
	}
	if len(order) > 10 {
		fmt.Printf("  ... and %d more violation classes\n", len(order)-10)
	}
	if unexplained > 0 {
		exit = 1
	}
	for _, s := range agg.Inconclusive {
		fmt.Println("INCONCLUSIVE", r.Prop, s)
	}

	distinct := int64(len(agg.NT)) + agg.NTCount
	cov := map[string]interface{}{
		"evaluations":                          agg.Evals,
		"distinct_nontrivial":                  distinct,
		"rule":                                 r.W.Rule(),
		"samples":                              agg.Samples,
		"cases":                                len(cases),
		"observations":                         agg.Obs,
		"observed_max":                         agg.ObsMax,
		"inconclusive":                         len(agg.Inconclusive),
		"inconclusive_detail":                  clipList(agg.Inconclusive, 10),
		"skipped":                              agg.Skipped,
		"worker_restarts":                      agg.Restarts,
		"known_findings_reproduced_by_witness": kfReproduced,
		"generated_cases_explained_by_known_finding": explained,
		"unexplained_violations":                     unexplained,
	}
	if coverage != nil {
		cov["library_statement_coverage"] = coverage
	}
	if ex, ok := r.W.(interface {
		Exhaustive(tier string) (bool, string)
	}); ok {
		if yes, what := ex.Exhaustive(r.Tier); yes {
			cov["exhaustive"] = true
			cov["exhaustive_subspace"] = what
		}
	}
	ev := map[string]interface{}{
		"property_id": r.Prop,
		"tier":        r.Tier,
		"seed":        r.Seed,
		"level":       r.W.Level(),
		"coverage":    cov,
		"wall_s":      time.Since(t0).Seconds(),
		"violations":  unexplained,
	}
	if as, ok := r.W.(Assumer); ok {
		ev["assumptions"] = as.Assumptions()
	}
	if agg.Evals < 1 || distinct < 2 || len(agg.Samples) == 0 {
		fmt.Printf("ERROR %s observed too little (evaluations=%d distinct=%d samples=%d): inconclusive\n", r.Prop, agg.Evals, distinct, len(agg.Samples))
		if exit == 0 {
			exit = 2
		}
	} else {
		if err := WriteJSON(filepath.Join(r.VerifDir, "evidence", r.Prop+".json"), ev); err != nil {
			fmt.Println("ERROR writing evidence:", err)
			return 2
		}
	}
	if len(agg.Inconclusive) > 0 && exit == 0 {
		// inconclusive parts are reported, never folded into pass or fail
		fmt.Printf("NOTE %s: %d inconclusive item(s); everything else held\n", r.Prop, len(agg.Inconclusive))
	}
	fmt.Printf("%s %s seed=%d: evaluations=%d distinct_nontrivial=%d violations=%d explained_by_known_findings=%d wall=%.1fs\n",
		r.Prop, r.Tier, r.Seed, agg.Evals, distinct, unexplained, sum(explained), time.Since(t0).Seconds())
	return exit
}

func sum(m map[string]int) int {
	n := 0
	for _, v := range m {
		n += v
	}
	return n
}

func clipList(l []string, n int) []string {
	if len(l) > n {
		l = l[:n]
	}
	out := make([]string, len(l))
	for i, s := range l {
		if len(s) > 300 {
			s = s[:300]
		}
		out[i] = s
	}
	return out
}

// collectRaces parses the race detector's log files.
func (r *Runner) collectRaces(agg *Aggregate) {
	files, _ := filepath.Glob(filepath.Join(r.workDir, "racelog.*"))
	seen := map[string]bool{}
	reports := 0
	for _, f := range files {
		b, err := os.ReadFile(f)
		if err != nil {
			continue
		}
		blocks := strings.Split(string(b), "==================")
		for _, bl := range blocks {
			if !strings.Contains(bl, "WARNING: DATA RACE") {
				continue
			}
			reports++
			var fns []string
			lib := false
			for _, line := range strings.Split(bl, "\n") {
				line = strings.TrimSpace(line)
				if strings.HasPrefix(line, "github.com/") || strings.HasPrefix(line, "verif/") || strings.HasPrefix(line, "main.") || strings.HasPrefix(line, "runtime.") {
					fn := line
					if i := strings.IndexByte(fn, '('); i > 0 {
						fn = fn[:i]
					}
					if strings.Contains(fn, "vogo/gohessian") {
						lib = true
					}
					fns = append(fns, fn)
				}
			}
			key := strings.Join(fns, ";")
			if seen[key] {
				continue
			}
			seen[key] = true
			cls := "race:harness-only"
			if lib {
				cls = "race:" + firstLib(fns)
			}
			d := bl
			if len(d) > 1500 {
				d = d[:1500]
			}
			agg.Viol = append(agg.Viol, Violation{Class: cls, Detail: strings.ReplaceAll(d, "\n", " | "), Case: Case{Kind: "race-report", Opt: []string{"race"}}})
		}
	}
	agg.Obs["race_reports"] += int64(reports)
	agg.Obs["race_reports_distinct"] += int64(len(seen))
}

func firstLib(fns []string) string {
	for _, f := range fns {
		if strings.Contains(f, "vogo/gohessian") {
			return f[strings.LastIndex(f, "gohessian")+len("gohessian"):]
		}
	}
	return "?"
}

// ReplayFile re-executes the case of a replay file and prints the verdict.
func (r *Runner) ReplayFile(path string) int {
	b, err := os.ReadFile(path)
	if err != nil {
		fmt.Println("ERROR", err)
		return 2
	}
	var rf replayFile
	if err := json.Unmarshal(b, &rf); err != nil {
		fmt.Println("ERROR", err)
		return 2
	}
	c := rf.Viol.Case
	if c.Kind == "" {
		// a witness file
		var w Witness
		json.Unmarshal(b, &w)
		c = w.Case
	}
	r.workDir = filepath.Join(r.VerifDir, ".work", fmt.Sprintf("%s-replay-%d", r.Prop, os.Getpid()))
	os.MkdirAll(r.workDir, 0o755)
	defer os.RemoveAll(r.workDir)
	res, died, err := r.replayChild(c, c.HasOpt("race"))
	if err != nil {
		fmt.Println("INCONCLUSIVE", err)
		return 2
	}
	var viols []Violation
	if res != nil {
		viols = res.Viol
	} else {
		viols = []Violation{{Class: strings.Fields(died)[0], Detail: died, Case: c}}
	}
	exit := 0
	for i := range viols {
		if id := r.KF.Explain(r.Prop, &viols[i]); id != "" {
			fmt.Printf("KNOWN-FINDING: property=%s %s (replayed)\n", r.Prop, id)
			continue
		}
		fmt.Printf("VIOLATION property=%s replay=%s\n  %s features=%v: %s\n", r.Prop, path, viols[i].Class, viols[i].Features, viols[i].Detail)
		exit = 1
	}
	if len(viols) == 0 {
		fmt.Printf("HELD property=%s case passes on the current tree\n", r.Prop)
	}
	return exit
}

// coveragePass re-runs the property's QUICK case list on a -cover build of the worker and
// reports which part of the library the workload reaches (evidence only, never a verdict).
func (r *Runner) coveragePass() map[string]interface{} {
	dir := filepath.Join(r.workDir, "cov")
	os.MkdirAll(dir, 0o755)
	sub := filepath.Join(r.workDir, "covrun")
	os.MkdirAll(sub, 0o755)
	cases := r.W.Cases("quick", r.Seed, r.KF)
	n := 0
	for _, c := range cases {
		if !c.HasOpt("race") {
			n++
		}
	}
	nsh := 16
	if n < nsh {
		nsh = n
	}
	var wg sync.WaitGroup
	for s := 0; s < nsh; s++ {
		wg.Add(1)
		go func(s int) {
			defer wg.Done()
			cmd := exec.Command(r.CoverBin, "worker", r.Prop, "quick", fmt.Sprint(r.Seed), fmt.Sprint(s), fmt.Sprint(nsh), "0", "0", sub, "plain")
			cmd.Env = append(r.env(false), "GOCOVERDIR="+dir)
			done := make(chan error, 1)
			if cmd.Start() != nil {
				return
			}
			go func() { done <- cmd.Wait() }()
			select {
			case <-done:
			case <-time.After(10 * time.Minute):
				cmd.Process.Kill()
				<-done
			}
		}(s)
	}
	wg.Wait()
	out := map[string]interface{}{"workload": "quick case list of this property on a -cover worker"}
	pc, err := exec.Command("go", "tool", "covdata", "percent", "-i="+dir, "-pkg=github.com/vogo/gohessian").CombinedOutput()
	if err != nil {
		out["error"] = strings.TrimSpace(string(pc))
		return out
	}
	for _, l := range strings.Split(string(pc), "\n") {
		if i := strings.Index(l, "coverage:"); i >= 0 {
			out["percent"] = strings.TrimSpace(l[i+len("coverage:"):])
		}
	}
	prof := filepath.Join(r.workDir, "cov.txt")
	if b, err := exec.Command("go", "tool", "covdata", "textfmt", "-i="+dir, "-o="+prof, "-pkg=github.com/vogo/gohessian").CombinedOutput(); err != nil {
		out["error"] = strings.TrimSpace(string(b))
		return out
	}
	cmd := exec.Command("go", "tool", "cover", "-func="+prof)
	cmd.Dir = r.VerifDir
	fb, err := cmd.CombinedOutput()
	if err != nil {
		out["func_error"] = strings.TrimSpace(string(fb))
		return out
	}
	var never []string
	for _, l := range strings.Split(string(fb), "\n") {
		f := strings.Fields(l)
		if len(f) == 3 && f[2] == "0.0%" {
			never = append(never, f[1])
		}
	}
	sort.Strings(never)
	out["functions_never_entered"] = never
	return out
}
