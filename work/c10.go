package work

import (
	"fmt"
	hessian "github.com/vogo/gohessian"
	"math/rand"
	"reflect"
	"time"

	"verif/zoo"
)

// C10 — timestamps keep their instant at millisecond resolution, years 1..9999.
type c10 struct{}

func init() { Register(c10{}) }

func (c10) ID() string    { return "C10" }
func (c10) Level() string { return "exploration" }
func (c10) Rule() string {
	return "instants from a boundary table (epoch, +-2^31 s, +-1 ms/+-1 s around each, year 1, 1677/1678, 2262/2263, 9999, pre-1970 with fractional part) and uniformly random milliseconds over years 1..9999, plus sub-millisecond instants; positions: top level, struct field, []time.Time element, map value; zero time in a struct field. Oracle: integer arithmetic on (seconds, nanoseconds), never UnixNano: whole-ms instants must decode to the same instant, finer ones to < 1 ms away. Non-trivial = not the zero time; distinct by (position, instant)."
}

var (
	minSec = time.Date(1, 1, 1, 0, 0, 0, 0, time.UTC).Unix()
	maxSec = time.Date(9999, 12, 31, 23, 59, 59, 0, time.UTC).Unix()
)

func (c10) Cases(tier string, seed int64, kf *KnownFindings) []Case {
	var cs []Case
	add := func(c Case) { c.Sub = -1; cs = append(cs, c) }
	add(Case{Kind: "table"})
	add(Case{Kind: "bulk", Seed: Mix(seed, 4244)})
	add(Case{Kind: "shapes", Seed: Mix(seed, 4246), Count: 150})
	n, per := 16, 2000
	if tier == "thorough" {
		n, per = 200, 20000
	}
	for i := 0; i < n; i++ {
		add(Case{Kind: "rand", Seed: Mix(seed, i), Count: per})
	}
	return cs
}

func dateTable() []time.Time {
	var out []time.Time
	around := func(sec int64) {
		for _, ds := range []int64{-1, 0, 1} {
			for _, ms := range []int64{0, 1, 500, 999} {
				out = append(out, time.Unix(sec+ds, ms*1e6))
			}
		}
	}
	for _, s := range []int64{0, 1 << 31, -(1 << 31), 1<<31 - 1, 1 << 32, -(1 << 32), 60, -60, 3600, 86400, -86400,
		time.Date(1677, 9, 21, 0, 12, 43, 0, time.UTC).Unix(), time.Date(1678, 1, 1, 0, 0, 0, 0, time.UTC).Unix(),
		time.Date(2262, 4, 11, 23, 47, 16, 0, time.UTC).Unix(), time.Date(2263, 1, 1, 0, 0, 0, 0, time.UTC).Unix(),
		time.Date(2038, 1, 19, 3, 14, 7, 0, time.UTC).Unix(), time.Date(2040, 1, 1, 0, 0, 0, 0, time.UTC).Unix(),
		time.Date(1901, 12, 13, 20, 45, 52, 0, time.UTC).Unix(), time.Date(1900, 1, 1, 0, 0, 0, 0, time.UTC).Unix(),
		time.Date(1969, 12, 31, 23, 58, 20, 0, time.UTC).Unix(),
		minSec + 1, minSec + 86400, maxSec - 1, maxSec - 86400,
		time.Date(5000, 6, 15, 12, 0, 0, 0, time.UTC).Unix(), time.Date(100, 1, 1, 0, 0, 0, 0, time.UTC).Unix()} {
		around(s)
	}
	out = append(out, time.Unix(minSec, 1e6), time.Unix(maxSec, 999e6))
	// the same instants seen from other zones: near the edges of the range the LOCAL year is 0 or 10000
	east, west := time.FixedZone("east", 14*3600), time.FixedZone("west", -12*3600)
	for _, s := range []int64{minSec + 1, minSec + 3600, minSec + 11*3600, minSec + 86400, maxSec - 1, maxSec - 3600, maxSec - 13*3600, maxSec - 86400, 0, 1500000000} {
		for _, ms := range []int64{0, 7} {
			out = append(out, time.Unix(s, ms*1e6).In(east), time.Unix(s, ms*1e6).In(west), time.Unix(s, ms*1e6).UTC())
		}
	}
	// sub-millisecond precision
	out = append(out, time.Unix(1500000000, 123456789), time.Unix(-1500000000, 123456789), time.Unix(1<<33, 999999), time.Unix(-100, 500000001), time.Unix(0, 1), time.Unix(-1, 999999999))
	return out
}

func timeFeatures(t time.Time) []string {
	feats := []string{"time"}
	sec := t.Unix()
	if sec > 1<<31-1 || sec < -(1<<31) {
		feats = append(feats, "time.sec-beyond-int32")
	}
	if t.Year() < 1678 || t.Year() > 2261 {
		feats = append(feats, "time.beyond-ns-window")
	}
	if sec < 0 {
		feats = append(feats, "time.pre1970")
	}
	if t.Nanosecond() == 0 {
		feats = append(feats, "time.wholesecond")
	} else if sec < 0 {
		feats = append(feats, "time.pre1970.fraction")
	}
	if t.Nanosecond()%1e6 != 0 {
		feats = append(feats, "time.subms")
	}
	return feats
}

type c10Wide struct {
	Old    time.Time
	A      time.Time
	Gone   []time.Time
	At     time.Time
	Stamps []time.Time
}

type c10Narrow struct {
	A      time.Time
	At     time.Time
	Stamps []time.Time
}

type c10Ptrs struct {
	P *time.Time
	Q *time.Time
	L []*time.Time
	A *c10Event
	R *time.Time
	B *c10Event
}

type c10Event struct {
	At time.Time
	N  int32
}

type c10Log struct {
	Stamps []time.Time
	First  *c10Event
	Last   *c10Event
	Again  *c10Event
}

func (c10) Run(c Case, env *Env) Result {
	var res Result
	positions := []string{"top", "field", "elem", "mapval"}
	check := func(t time.Time, pos string, sub int) {
		res.Evals++
		res.NT = append(res.NT, Hash64(fmt.Sprintf("%s|%d|%d", pos, t.Unix(), t.Nanosecond())))
		res.Count("pos="+pos, 1)
		feats := append(timeFeatures(t), "pos="+pos)
		for _, f := range feats {
			if len(f) > 5 && f[:5] == "time." {
				res.Count(f, 1)
			}
		}
		cc := c
		cc.Sub = sub
		viol := func(class, detail string) {
			env.Viol(&res, Violation{Class: class, Features: feats, Detail: fmt.Sprintf("%s (unix %d.%09d) at %s: %s", t.UTC().Format(time.RFC3339Nano), t.Unix(), t.Nanosecond(), pos, detail), Case: cc})
		}
		var val interface{}
		var get func(d interface{}) (time.Time, bool)
		switch pos {
		case "top":
			val = t
			get = func(d interface{}) (time.Time, bool) { x, ok := d.(time.Time); return x, ok }
		case "field":
			val = &zoo.Scalars{T: t, S: "x"}
			get = func(d interface{}) (time.Time, bool) {
				s, ok := d.(*zoo.Scalars)
				if !ok {
					return time.Time{}, false
				}
				return s.T, true
			}
		case "elem":
			o1 := time.Unix(1000000000, 5e6)
			val = &zoo.SlTime{V: []time.Time{o1, t, o1}}
			get = func(d interface{}) (time.Time, bool) {
				s, ok := d.(*zoo.SlTime)
				if !ok || len(s.V) != 3 {
					return time.Time{}, false
				}
				return s.V[1], true
			}
		case "mapval":
			val = map[interface{}]interface{}{"k": t}
			get = func(d interface{}) (time.Time, bool) {
				m, ok := d.(map[interface{}]interface{})
				if !ok {
					return time.Time{}, false
				}
				x, ok := m["k"].(time.Time)
				return x, ok
			}
		}
		o := roundTrip(val)
		switch {
		case o.Panic != nil:
			viol(o.Panic.Class, o.Stage+" panic "+o.Panic.Msg)
		case o.EncErr != nil:
			viol("enc-error", o.EncErr.Error())
		case o.DecErr != nil:
			viol("dec-error", fmt.Sprintf("(%s) %v", hexClip(o.Wire), o.DecErr))
		default:
			got, ok := get(o.Dec)
			if !ok {
				viol("mismatch:shape", fmt.Sprintf("(%s) decoded as %T", hexClip(o.Wire), o.Dec))
				return
			}
			if d := zoo.Equiv(t, got, zoo.EquivOpts{}); d != "" {
				viol("mismatch:instant", fmt.Sprintf("(%s) decoded as %s (unix %d.%09d)", hexClip(o.Wire), got.UTC().Format(time.RFC3339Nano), got.Unix(), got.Nanosecond()))
			}
			// the same bytes (name map taken from the value) decoded with the type map taken from the TYPE:
			// both extractions must agree on the wire name of []time.Time
			if pos == "elem" || pos == "field" {
				var d2 interface{}
				var e2 error
				pi, _ := Guard(func() { d2, e2 = hessian.ToObject(o.Wire, hessian.TypeMapOf(reflect.TypeOf(val))) })
				switch {
				case pi != nil:
					viol(pi.Class, "decode with TypeMapOf(type): panic "+pi.Msg)
				case e2 != nil:
					viol("dec-error", fmt.Sprintf("encoded with the name map of the value, decoded with TypeMapOf(type) (%s): %v", hexClip(o.Wire), e2))
				default:
					if got2, ok := get(d2); !ok || zoo.Equiv(t, got2, zoo.EquivOpts{}) != "" {
						viol("mismatch:instant", fmt.Sprintf("decoded with TypeMapOf(type) (%s): %v", hexClip(o.Wire), d2))
					}
				}
			}
		}
	}
	switch c.Kind {
	case "shapes":
		// message shapes around the instants: timestamp lists in front of shared pointers (a list of timestamps
		// takes a reference number, a timestamp does not), a struct with a timestamp reached through a
		// back-reference, and zero timestamps inside lists that travel untyped (class-only type map)
		tab := dateTable()
		r := rand.New(rand.NewSource(c.Seed))
		o1 := time.Unix(1000000000, 5e6)
		for j := 0; j < c.Count; j++ {
			t := tab[r.Intn(len(tab))]
			if r.Intn(2) == 0 {
				t = time.Unix(minSec+r.Int63n(maxSec-minSec+1), r.Int63n(1000)*1e6)
			}
			if t.Unix() < minSec || t.Unix() > maxSec || t.IsZero() || (c.Sub >= 0 && j != c.Sub) {
				continue
			}
			res.Evals++
			res.NT = append(res.NT, Hash64(fmt.Sprintf("shapes|%d|%d|%d", j%20, t.Unix(), t.Nanosecond())))
			feats := append(timeFeatures(t), "pos=shapes")
			cc := c
			cc.Sub = j
			viol := func(class, detail string) {
				env.Viol(&res, Violation{Class: class, Features: feats, Detail: fmt.Sprintf("%s (unix %d.%09d): %s", t.UTC().Format(time.RFC3339Nano), t.Unix(), t.Nanosecond(), detail), Case: cc})
			}
			first, last := &c10Event{At: t, N: 1}, &c10Event{At: o1, N: 2}
			in := &zoo.Inner{A: 1, S: "in"}
			var v interface{}
			classOnly := j%4 >= 2
			switch j % 4 {
			case 0:
				v = &c10Log{Stamps: []time.Time{o1, t}, First: first, Last: last, Again: first}
			case 1:
				v = &zoo.TimesThenRefs{T: []time.Time{t}, A: in, B: &zoo.Inner{A: 2, S: "other"}, U: []time.Time{o1, t, o1}, C: in}
			case 2:
				v = &c10Log{Stamps: []time.Time{o1, {}, t, {}}, First: first, Last: last, Again: last}
			default:
				v = &zoo.SlTime{V: []time.Time{{}, t, o1, {}, {}}}
			}
			var o rtOut
			how := "name and type maps of the value"
			if j%5 == 4 {
				// version skew: the sender's class has timestamp fields the receiver's struct lacks; the timestamps
				// BEHIND the dropped ones must still be exact (whatever wire form the dropped ones took)
				wv := &c10Wide{Old: t, A: o1, Gone: []time.Time{t, o1}, At: t, Stamps: []time.Time{o1, t}}
				if j%2 == 0 {
					wv.Old, wv.A = o1.Truncate(time.Second), t
				}
				v = &c10Narrow{A: wv.A, At: wv.At, Stamps: wv.Stamps}
				how = "sender's class has two more timestamp fields than the receiver's struct"
				o.Stage = "encode"
				o.Panic, _ = Guard(func() {
					o.Wire, o.EncErr = hessian.ToBytes(wv, map[string]string{"c10Wide": "c10.Rec"})
					if o.EncErr == nil {
						o.Stage = "decode"
						o.Dec, o.DecErr = hessian.ToObject(o.Wire, map[string]reflect.Type{"c10.Rec": reflect.TypeOf(c10Narrow{})})
					}
				})
				res.Count("timestamps_behind_dropped_timestamp_fields", 1)
			} else if j%5 == 3 {
				// timestamps behind POINTERS: in pointer fields, twice the same pointer (a timestamp is a value on the
				// wire and takes no reference number), in a list of pointers, in front of a shared struct pointer
				tp := t
				o1p := o1
				v = &c10Ptrs{P: &tp, Q: &tp, L: []*time.Time{&o1p, &tp, nil, &tp}, A: first, R: &o1p, B: first}
				how = "timestamps behind pointers"
				o = roundTrip(v)
				res.Count("timestamps_behind_pointers", 1)
				if o.Panic == nil && o.EncErr == nil && o.DecErr == nil {
					if d, ok := o.Dec.(*c10Ptrs); ok && zoo.Equiv(v, o.Dec, zoo.EquivOpts{}) == "" && d.A != d.B {
						viol("mismatch:sharing", fmt.Sprintf("%s (%s): the struct pointer shared by two fields behind the timestamps came back as two objects", how, hexClip(o.Wire)))
					}
				}
			} else if classOnly {
				o = classOnlyRoundTrip(v)
				how = "nil name map / class-only type map"
				res.Count("zero_timestamps_in_untyped_lists", 1)
			} else {
				o = roundTrip(v)
				res.Count("timestamp_lists_before_back_references", 1)
			}
			switch {
			case o.Panic != nil:
				viol(o.Panic.Class, how+": "+o.Stage+" panic "+o.Panic.Msg)
			case o.EncErr != nil:
				viol("enc-error", how+": "+o.EncErr.Error())
			case o.DecErr != nil:
				viol("dec-error", fmt.Sprintf("%s (%s) %v", how, hexClip(o.Wire), o.DecErr))
			default:
				if d := zoo.Equiv(v, o.Dec, zoo.EquivOpts{}); d != "" {
					viol("mismatch:instant", fmt.Sprintf("%s (%s): %s", how, hexClip(o.Wire), d))
				} else if _, ptrs := v.(*c10Ptrs); ptrs {
					// (pointer identity of timestamps is not carried: judged above through the struct pointer)
				} else if d := zoo.SameSharing(v, o.Dec); d != "" {
					viol("mismatch:sharing", fmt.Sprintf("%s (%s): %s", how, hexClip(o.Wire), d))
				}
			}
		}
		res.Sample(map[string]interface{}{"kind": "message shapes around timestamps", "count": c.Count})
	case "bulk":
		bulkCheck(env, &res, c, "time")
		res.Sample(map[string]interface{}{"kind": "bulk", "what": "1200 timestamps in one list and timestamps behind 4070..4100 bytes of padding"})
	case "table":
		tab := dateTable()
		j := 0
		for _, t := range tab {
			if t.Unix() < minSec || t.Unix() > maxSec || t.IsZero() {
				continue
			}
			for _, pos := range positions {
				if c.Sub < 0 || c.Sub == j {
					check(t, pos, j)
				}
				j++
			}
		}
		// the zero timestamp: null on the wire, zero time back in a struct field
		res.Evals++
		o := roundTrip(&zoo.Scalars{S: "z"})
		if o.Panic != nil || o.EncErr != nil || o.DecErr != nil {
			env.Viol(&res, Violation{Class: "zero-time", Features: []string{"time.zero@field"}, Detail: fmt.Sprintf("zero time in struct field: %v %v %v", o.Panic, o.EncErr, o.DecErr), Case: c})
		} else if s, ok := o.Dec.(*zoo.Scalars); !ok || !s.T.IsZero() {
			env.Viol(&res, Violation{Class: "zero-time", Features: []string{"time.zero@field"}, Detail: fmt.Sprintf("zero time in struct field decoded as %v", o.Dec), Case: c})
		}
		res.Sample(map[string]interface{}{"kind": "date boundary table", "instants": len(tab), "example": "2040-01-01T00:00:00Z, 1969-12-31T23:58:20.5Z, 0001-01-01T00:00:00.001Z"})
	case "rand":
		r := rand.New(rand.NewSource(c.Seed))
		for j := 0; j < c.Count; j++ {
			sec := minSec + r.Int63n(maxSec-minSec+1)
			ns := r.Int63n(1000) * 1e6
			switch r.Intn(10) {
			case 0:
				ns = 0
			case 1:
				ns = r.Int63n(1e9) // sub-millisecond
			}
			if r.Intn(4) == 0 {
				sec = -(1 << 32) + r.Int63n(1<<33) // concentrate around the 32-bit window
			}
			t := time.Unix(sec, ns)
			pos := positions[r.Intn(len(positions))]
			if t.IsZero() || (c.Sub >= 0 && j != c.Sub) {
				continue
			}
			check(t, pos, j)
		}
		{
			t := time.Unix(minSec+rand.New(rand.NewSource(c.Seed)).Int63n(maxSec-minSec), 123e6)
			o := roundTrip(t)
			res.Sample(map[string]interface{}{"kind": "uniform random instants years 1..9999", "seed": c.Seed, "count": c.Count, "example": map[string]interface{}{"instant": t.UTC().Format(time.RFC3339Nano), "wire": hexClip(o.Wire), "decoded": fmt.Sprint(o.Dec)}})
		}
	}
	return res
}
