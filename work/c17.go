package work

import (
	"bufio"
	"bytes"
	"fmt"
	"io"
	"math/rand"
	"reflect"
	"runtime"
	"sort"
	"strings"
	"sync"
	"sync/atomic"
	"time"

	"github.com/anishathalye/porcupine"
	hessian "github.com/vogo/gohessian"

	"verif/hspec"
	"verif/mon"
	"verif/zoo"
	"verif/zoo/alt3"
)

// C17 — the pool hands each object to one holder at a time and never blocks.
type c17 struct{}

func init() { Register(c17{}) }

func (c17) ID() string    { return "C17" }
func (c17) Level() string { return "exploration" }
func (c17) Rule() string {
	return "Get/Return by 1..64 goroutines on pools of size 0..8 from all three constructors, op mixes {get-heavy, return-heavy, balanced, bursts}; every call is recorded at the client boundary (call/return sequence numbers from one atomic counter, object identity = pointer, first-sight flag). Online: ownership table with CAS (double hand-out). Offline over the event log: conservation (every non-fresh Get matched to a distinct earlier-started Return), drain after quiescence <= size without duplicates, linearizability of many short histories against a nondeterministic set model as weak as the statement (porcupine), blocking decided by Return-only / Get-only phases in a timer-free goroutine set (runtime deadlock detector), fresh objects round-trip. The concurrent phases also run on the -race worker. Non-trivial = history with >= 2 goroutines; distinct by (constructor, size, goroutines, mix, seed)."
}
func (c17) NeedsRace(string) bool { return true }
func (c17) ProcOpts() Proc        { return Proc{StallSec: 30} }

func (c17) Cases(tier string, seed int64, kf *KnownFindings) []Case {
	var cs []Case
	add := func(c Case) { c.Sub = -1; cs = append(cs, c) }
	gs := []int{1, 2, 4, 16, 64}
	ops, hist := 600, 20
	if tier == "thorough" {
		ops, hist = 150000, 1500
	}
	i := 0
	for ctor := 0; ctor < 3; ctor++ {
		for size := 0; size <= 8; size++ {
			for _, g := range gs {
				if tier == "quick" && (size+g+ctor)%3 != 0 {
					continue
				}
				i++
				add(Case{Kind: "conc", N: size, M: g, K: ctor, Seed: Mix(seed, i), Count: ops})
				if i%2 == 0 {
					add(Case{Kind: "conc", N: size, M: g, K: ctor, Seed: Mix(seed, 5000+i), Count: ops / 4, Opt: []string{"race"}})
				}
			}
			add(Case{Kind: "lin", N: size, K: ctor, Seed: Mix(seed, 9000+ctor*10+size), Count: hist})
			if size <= 4 {
				rounds := 150
				if tier == "thorough" {
					rounds = 4000
				}
				add(Case{Kind: "burst", N: size, M: []int{4, 8, 16}[(size+ctor)%3], K: ctor, Seed: Mix(seed, 9500+ctor*10+size), Count: rounds})
				if size%2 == 1 {
					add(Case{Kind: "burst", N: size, M: 8, K: ctor, Seed: Mix(seed, 9600+ctor*10+size), Count: rounds / 3, Opt: []string{"race"}})
				}
			}
			add(Case{Kind: "block", N: size, K: ctor})
			if ctor == size%3 {
				add(Case{Kind: "wrap", N: size, K: ctor, Count: 70000})
			}
		}
		add(Case{Kind: "fresh", K: ctor})
		add(Case{Kind: "nilmaps", K: ctor, N: 4})
		add(Case{Kind: "nilmaps", K: ctor, N: 4, M: 8, Count: 40, Opt: []string{"race"}})
		add(Case{Kind: "abandon", K: ctor, N: 1, Count: 6})
		add(Case{Kind: "abandon", K: ctor, N: 4, Count: 6})
		add(Case{Kind: "dropped", K: ctor, N: 0, Count: 5})
		add(Case{Kind: "dropped", K: ctor, N: 2, Count: 5})
		add(Case{Kind: "pending", K: ctor, N: 0, Count: 4})
		add(Case{Kind: "pending", K: ctor, N: 2, Count: 4})
	}
	return cs
}

func newPool(ctor, size int, tm map[string]reflect.Type, nm map[string]string) hessian.Pool {
	switch ctor {
	case 0:
		return hessian.NewEncoderPool(size, nm)
	case 1:
		return hessian.NewDecoderPool(size, tm)
	}
	return hessian.NewSerializerPool(size, tm, nm)
}

var ctorNames = []string{"NewEncoderPool", "NewDecoderPool", "NewSerializerPool"}

func objID(o interface{}) uintptr {
	v := reflect.ValueOf(o)
	if !v.IsValid() || v.Kind() != reflect.Ptr {
		return 0
	}
	return v.Pointer()
}

type poolEvent struct {
	Call, Ret int64
	G         int
	Get       bool
	Obj       uintptr
	Fresh     bool
}

// poolMonitor is the client-boundary recorder (its own state is atomics / a mutex).
type poolMonitor struct {
	seq     int64
	owners  sync.Map // uintptr -> *int32 (1 = held)
	seen    sync.Map // uintptr -> struct{}
	mu      sync.Mutex
	events  []poolEvent
	dbl     int64
	held    int64
	maxHeld int64
}

func (m *poolMonitor) get(p hessian.Pool, g int) (interface{}, poolEvent) {
	ev := poolEvent{G: g, Get: true, Call: atomic.AddInt64(&m.seq, 1)}
	o := p.Get()
	ev.Ret = atomic.AddInt64(&m.seq, 1)
	ev.Obj = objID(o)
	// the object itself is stored: every object ever handed out stays reachable, so the
	// allocator cannot re-use its address for a later object (identity = pointer stays sound)
	_, loaded := m.seen.LoadOrStore(ev.Obj, o)
	ev.Fresh = !loaded
	fl, _ := m.owners.LoadOrStore(ev.Obj, new(int32))
	if !atomic.CompareAndSwapInt32(fl.(*int32), 0, 1) {
		atomic.AddInt64(&m.dbl, 1)
	}
	h := atomic.AddInt64(&m.held, 1)
	for {
		mx := atomic.LoadInt64(&m.maxHeld)
		if h <= mx || atomic.CompareAndSwapInt64(&m.maxHeld, mx, h) {
			break
		}
	}
	m.mu.Lock()
	m.events = append(m.events, ev)
	m.mu.Unlock()
	return o, ev
}

func (m *poolMonitor) ret(p hessian.Pool, g int, o interface{}) poolEvent {
	id := objID(o)
	if fl, ok := m.owners.Load(id); ok {
		atomic.StoreInt32(fl.(*int32), 0)
	}
	atomic.AddInt64(&m.held, -1)
	ev := poolEvent{G: g, Get: false, Obj: id, Call: atomic.AddInt64(&m.seq, 1)}
	p.Return(o)
	ev.Ret = atomic.AddInt64(&m.seq, 1)
	m.mu.Lock()
	m.events = append(m.events, ev)
	m.mu.Unlock()
	return ev
}

// conservation: every non-fresh Get(o) is matched to a distinct Return(o) that started before the Get returned.
func conservation(evs []poolEvent) string {
	by := map[uintptr][]poolEvent{}
	for _, e := range evs {
		by[e.Obj] = append(by[e.Obj], e)
	}
	for obj, l := range by {
		var gets, rets []poolEvent
		for _, e := range l {
			if e.Get && !e.Fresh {
				gets = append(gets, e)
			} else if !e.Get {
				rets = append(rets, e)
			}
		}
		sort.Slice(gets, func(i, j int) bool { return gets[i].Ret < gets[j].Ret })
		sort.Slice(rets, func(i, j int) bool { return rets[i].Call < rets[j].Call })
		ri := 0
		for _, g := range gets {
			if ri >= len(rets) || rets[ri].Call > g.Ret {
				return fmt.Sprintf("object %#x was handed out (Get returning at seq %d by g%d) without a matching earlier Return: %d re-uses, %d returns", obj, g.Ret, g.G, len(gets), len(rets))
			}
			ri++
		}
	}
	return ""
}

func adjacencies(evs []poolEvent) int {
	s := append([]poolEvent(nil), evs...)
	sort.Slice(s, func(i, j int) bool { return s[i].Call < s[j].Call })
	seen := map[[4]int]bool{}
	for i := 1; i < len(s); i++ {
		if s[i].G != s[i-1].G {
			k := [4]int{s[i-1].G, b2i(s[i-1].Get), s[i].G, b2i(s[i].Get)}
			seen[k] = true
		}
	}
	return len(seen)
}

func b2i(b bool) int {
	if b {
		return 1
	}
	return 0
}

// use exercises an object while it is held (so that a double hand-out is also a data race on its state).
func usePooled(o interface{}, val interface{}, wire []byte) {
	switch x := o.(type) {
	case *hessian.Encoder:
		w := &mon.CountingWriter{}
		x.WriteTo(w, val)
	case *hessian.Decoder:
		x.ReadFrom(mon.NewReader(wire))
	case hessian.Serializer:
		b, err := x.ToBytes(val)
		if err == nil {
			x.ToObject(b)
		}
	}
}

func (c17) Run(c Case, env *Env) Result {
	var res Result
	feats := []string{"ctor=" + ctorNames[c.K], fmt.Sprintf("size=%d", c.N), fmt.Sprintf("goroutines=%d", c.M), "kind=" + c.Kind}
	cc := c
	cc.Sub = 0
	val := &zoo.WithInner{X: zoo.Inner{A: 1, S: "s"}, P: &zoo.Inner{A: 2, S: "p"}, N: 3}
	tm, nm := hessian.ExtractTypeNameMap(val)
	// make the name map complete before sharing it (the encoder registers missing names)
	wire, _ := hessian.ToBytes(val, nm)
	viol := func(class, detail string) {
		env.Viol(&res, Violation{Class: class, Features: feats, Detail: detail, Case: cc})
	}
	switch c.Kind {
	case "conc":
		p := newPool(c.K, c.N, tm, nm)
		m := &poolMonitor{}
		r0 := rand.New(rand.NewSource(c.Seed))
		mix := r0.Intn(4)
		var wg sync.WaitGroup
		per := c.Count / c.M
		if per < 4 {
			per = 4
		}
		start := make(chan struct{})
		for g := 0; g < c.M; g++ {
			wg.Add(1)
			go func(g int, seed int64) {
				defer wg.Done()
				r := rand.New(rand.NewSource(seed))
				var held []interface{}
				<-start
				for i := 0; i < per; i++ {
					pGet := 0.5
					switch mix {
					case 0:
						pGet = 0.75
					case 1:
						pGet = 0.3
					case 3: // bursts
						if (i/16)%2 == 0 {
							pGet = 0.95
						} else {
							pGet = 0.05
						}
					}
					if len(held) == 0 || (len(held) < 12 && r.Float64() < pGet) {
						o, _ := m.get(p, g)
						if o == nil {
							continue
						}
						if i%8 == 0 {
							usePooled(o, val, wire)
						}
						held = append(held, o)
					} else {
						k := r.Intn(len(held))
						o := held[k]
						held = append(held[:k], held[k+1:]...)
						m.ret(p, g, o)
					}
					if r.Intn(8) == 0 {
						runtime.Gosched()
					}
				}
				for _, o := range held {
					m.ret(p, g, o)
				}
			}(g, Mix(c.Seed, g))
		}
		close(start)
		wg.Wait()
		// quiescent: drain
		drained := map[uintptr]bool{}
		nOld := 0
		for i := 0; i < c.N+4; i++ {
			o, ev := m.get(p, -1)
			if ev.Fresh {
				break
			}
			if drained[objID(o)] {
				viol("drain-duplicate", fmt.Sprintf("pool (size %d) yielded object %#x twice while draining: it was retained twice", c.N, objID(o)))
				break
			}
			drained[objID(o)] = true
			nOld++
		}
		if nOld > c.N {
			viol("retains-more-than-size", fmt.Sprintf("pool of size %d yielded %d previously returned objects after quiescence", c.N, nOld))
		}
		if m.dbl > 0 {
			viol("double-hand-out", fmt.Sprintf("%d Get calls returned an object that the ownership table still marked as held", m.dbl))
		}
		if d := conservation(m.events); d != "" {
			viol("conservation", d)
		}
		res.Evals += int64(len(m.events))
		res.NT = append(res.NT, Hash64(fmt.Sprint(feats, c.Seed, c.Opt)))
		fresh, reuse := 0, 0
		for _, e := range m.events {
			if e.Get {
				if e.Fresh {
					fresh++
				} else {
					reuse++
				}
			}
		}
		res.Count("pool_ops", int64(len(m.events)))
		res.Count("fresh_creations", int64(fresh))
		res.Count("reuses", int64(reuse))
		res.Max("max_simultaneous_holders", m.maxHeld)
		res.Max("fill_level_at_quiescence", int64(nOld))
		res.Max("distinct_cross_goroutine_adjacencies", int64(adjacencies(m.events)))
		if env.Race {
			res.Count("ops_under_race_detector", int64(len(m.events)))
		}
		if len(res.Samples) == 0 {
			var hs []string
			for i, e := range m.events {
				if i >= 10 {
					break
				}
				op := "Return"
				if e.Get {
					op = "Get"
				}
				hs = append(hs, fmt.Sprintf("g%d %s obj=%#x fresh=%v [%d,%d]", e.G, op, e.Obj&0xffff, e.Fresh, e.Call, e.Ret))
			}
			res.Sample(map[string]interface{}{"ctor": ctorNames[c.K], "size": c.N, "goroutines": c.M, "history_head": hs})
		}
	case "burst":
		// all holders Return at the same instant, then all Get at the same instant (spin barriers):
		// the schedules in which a non-atomic "is it full / is it empty" test goes wrong
		p := newPool(c.K, c.N, tm, nm)
		m := &poolMonitor{}
		var phase int64
		var wg sync.WaitGroup
		n := c.M
		barrier := func(target int64) {
			atomic.AddInt64(&phase, 1)
			for atomic.LoadInt64(&phase) < target {
				runtime.Gosched()
			}
		}
		over := int64(0)
		// reuse[r] = Gets of round r that handed out a previously returned object; no Return runs
		// between the two barriers around the Get phase, so the pool can serve at most `size` of them
		reuse := make([]int32, c.Count)
		for g := 0; g < n; g++ {
			wg.Add(1)
			go func(g int) {
				defer wg.Done()
				var held []interface{}
				for r := 0; r < c.Count; r++ {
					base := int64(r) * 3 * int64(n)
					for len(held) < 1+g%2 {
						o, _ := m.get(p, g)
						held = append(held, o)
					}
					barrier(base + int64(n))
					for _, o := range held { // simultaneous Returns
						m.ret(p, g, o)
					}
					held = held[:0]
					barrier(base + 2*int64(n))
					o, gev := m.get(p, g) // simultaneous Gets
					if !gev.Fresh {
						atomic.AddInt32(&reuse[r], 1)
					}
					if i := r % 16; i == 0 {
						usePooled(o, val, wire)
					}
					held = append(held, o)
					barrier(base + 3*int64(n))
				}
				for _, o := range held {
					m.ret(p, g, o)
				}
			}(g)
		}
		wg.Wait()
		for r, k := range reuse {
			if int(k) > c.N {
				viol("retains-more-than-size", fmt.Sprintf("round %d: after simultaneous Returns a pool of size %d served %d previously returned objects to the following Gets (no Return in between)", r, c.N, k))
				break
			}
		}
		// quiescent: what the pool kept
		drained := map[uintptr]bool{}
		nOld := 0
		for i := 0; i < c.N+2*n+4; i++ {
			o, ev := m.get(p, -1)
			if ev.Fresh {
				break
			}
			if drained[objID(o)] {
				viol("drain-duplicate", fmt.Sprintf("pool (size %d) yielded object %#x twice while draining", c.N, objID(o)))
				break
			}
			drained[objID(o)] = true
			nOld++
		}
		if nOld > c.N {
			atomic.AddInt64(&over, 1)
			viol("retains-more-than-size", fmt.Sprintf("after %d rounds of simultaneous Returns a pool of size %d yielded %d previously returned objects", c.Count, c.N, nOld))
		}
		if m.dbl > 0 {
			viol("double-hand-out", fmt.Sprintf("%d Get calls returned an object that the ownership table still marked as held (simultaneous Gets)", m.dbl))
		}
		if d := conservation(m.events); d != "" {
			viol("conservation", d)
		}
		res.Evals += int64(len(m.events))
		res.NT = append(res.NT, Hash64(fmt.Sprint(feats, c.Seed, c.Opt)))
		res.Count("pool_ops", int64(len(m.events)))
		res.Count("burst_rounds", int64(c.Count))
		res.Max("fill_level_at_quiescence", int64(nOld))
		res.Max("distinct_cross_goroutine_adjacencies", int64(adjacencies(m.events)))
		if env.Race {
			res.Count("ops_under_race_detector", int64(len(m.events)))
		}
	case "wrap":
		// a long sequential life: tens of thousands of accepted Returns with several objects idle
		// (ring counters, generation numbers and the like wrap around only after that many)
		p := newPool(c.K, c.N, tm, nm)
		m := &poolMonitor{}
		k := c.N
		if k > 3 {
			k = 3
		}
		if k < 1 {
			k = 1
		}
		for r := 0; r < c.Count; r++ {
			var held []interface{}
			for i := 0; i < k; i++ {
				o, _ := m.get(p, 0)
				held = append(held, o)
			}
			for i := 0; i < len(held); i++ {
				for q := i + 1; q < len(held); q++ {
					if objID(held[i]) == objID(held[q]) && m.dbl == 0 {
						viol("double-hand-out", fmt.Sprintf("round %d: two consecutive Gets returned the same object while the first was still held (pool size %d)", r, c.N))
						r = c.Count
					}
				}
			}
			for _, o := range held {
				m.ret(p, 0, o)
			}
			if r%4096 == 0 {
				m.mu.Lock()
				m.events = m.events[:0] // keep the log bounded; the ownership table stays exact
				m.mu.Unlock()
			}
		}
		if m.dbl > 0 {
			viol("double-hand-out", fmt.Sprintf("%d Get calls returned an object that the ownership table still marked as held (after tens of thousands of Returns)", m.dbl))
		}
		res.Evals += int64(c.Count) * int64(2*k)
		res.NT = append(res.NT, Hash64(fmt.Sprint(feats)))
		res.Count("sequential_pool_ops", int64(c.Count)*int64(2*k))
	case "lin":
		c17lin(c, env, &res, feats, tm, nm)
	case "block":
		// decided without clocks: all these calls run on this goroutine (no timers in the
		// worker): a blocking Get/Return leaves every goroutine asleep and the runtime aborts.
		env.J(c.Idx, 0)
		p := newPool(c.K, c.N, tm, nm)
		m := &poolMonitor{}
		var objs []interface{}
		for i := 0; i < c.N+5; i++ { // Get-only on an empty pool
			o, ev := m.get(p, 0)
			if o == nil {
				viol("nil-object", "Get on an empty pool returned nil")
			} else if !ev.Fresh {
				viol("not-fresh", "Get on an empty pool returned an object seen before")
			}
			objs = append(objs, o)
		}
		for _, o := range objs { // Return-only: more returns than size
			m.ret(p, 0, o)
		}
		n := 0
		for i := 0; i < c.N+5; i++ {
			_, ev := m.get(p, 0)
			if !ev.Fresh {
				n++
			}
		}
		if n > c.N {
			viol("retains-more-than-size", fmt.Sprintf("pool of size %d kept %d of %d returned objects", c.N, n, c.N+5))
		}
		// the same from a second goroutine while this one waits on a channel (no timers)
		done := make(chan int)
		go func() {
			q := newPool(c.K, c.N, tm, nm)
			var l []interface{}
			for i := 0; i < c.N+3; i++ {
				l = append(l, q.Get())
			}
			for _, o := range l {
				q.Return(o)
			}
			done <- len(l)
		}()
		<-done
		res.Evals += int64(len(m.events)) + int64(2*(c.N+3))
		res.NT = append(res.NT, Hash64(fmt.Sprint(feats)))
		res.Count("nonblocking_calls_completed", int64(len(m.events))+int64(2*(c.N+3)))
		res.Max("kept_after_overfull_returns", int64(n))
	case "nilmaps":
		c17nilmaps(c, env, &res, viol)
	case "abandon":
		c17abandon(c, env, &res, viol, tm, nm)
	case "dropped":
		c17dropped(c, env, &res, viol, tm, nm)
	case "pending":
		c17pending(c, env, &res, viol, tm, nm)
	case "fresh":
		p := newPool(c.K, 0, tm, nm)
		for i := 0; i < 5; i++ {
			o := p.Get()
			res.Evals++
			var dec interface{}
			var err error
			pi, _ := Guard(func() {
				switch x := o.(type) {
				case *hessian.Encoder:
					w := &mon.CountingWriter{}
					if err = x.WriteTo(w, val); err == nil {
						dec, err = hessian.ToObject(w.Buf.Bytes(), tm)
					}
				case *hessian.Decoder:
					dec, err = x.ReadFrom(mon.NewReader(wire))
				case hessian.Serializer:
					var b []byte
					if b, err = x.ToBytes(val); err == nil {
						dec, err = x.ToObject(b)
					}
				default:
					err = fmt.Errorf("unexpected object %T", o)
				}
			})
			if pi != nil {
				viol("fresh-unusable", "panic: "+pi.Msg)
			} else if err != nil {
				viol("fresh-unusable", err.Error())
			} else if d := zoo.Equiv(val, dec, zoo.EquivOpts{}); d != "" {
				viol("fresh-unusable", d)
			}
			p.Return(o)
		}
		res.NT = append(res.NT, Hash64(fmt.Sprint(feats)), Hash64(fmt.Sprint(feats, "x")))
		res.Count("fresh_objects_roundtripped", 5)
	}
	return res
}

// ---- linearizability of short histories (porcupine, nondeterministic model)

type poolIn struct {
	Get bool
	Obj int // Return: object id
}
type poolOut struct {
	Obj   int
	Fresh bool
}

// state: sorted idle ids encoded as a string "size|a,b,c"
func poolModel(size int) porcupine.NondeterministicModel {
	enc := func(ids []int) string {
		sort.Ints(ids)
		var sb strings.Builder
		for _, i := range ids {
			fmt.Fprintf(&sb, "%d,", i)
		}
		return sb.String()
	}
	dec := func(s string) []int {
		var ids []int
		for _, f := range strings.Split(s, ",") {
			if f != "" {
				var x int
				fmt.Sscan(f, &x)
				ids = append(ids, x)
			}
		}
		return ids
	}
	return porcupine.NondeterministicModel{
		Init: func() []interface{} { return []interface{}{""} },
		Step: func(st, in, out interface{}) []interface{} {
			ids := dec(st.(string))
			i := in.(poolIn)
			if !i.Get {
				// Return: keep (if room) or drop — both allowed
				next := []interface{}{st}
				if len(ids) < size {
					next = append(next, enc(append(append([]int{}, ids...), i.Obj)))
				}
				return next
			}
			o := out.(poolOut)
			if o.Fresh {
				return []interface{}{st} // a never-seen object is always allowed
			}
			for k, id := range ids {
				if id == o.Obj {
					rest := append(append([]int{}, ids[:k]...), ids[k+1:]...)
					return []interface{}{enc(rest)}
				}
			}
			return nil // handed out an object that is not idle
		},
		Equal: func(a, b interface{}) bool { return a.(string) == b.(string) },
		DescribeOperation: func(in, out interface{}) string {
			i := in.(poolIn)
			if i.Get {
				o := out.(poolOut)
				return fmt.Sprintf("Get -> #%d fresh=%v", o.Obj, o.Fresh)
			}
			return fmt.Sprintf("Return(#%d)", i.Obj)
		},
	}
}

func c17lin(c Case, env *Env, res *Result, feats []string, tm map[string]reflect.Type, nm map[string]string) {
	lo, hi := subRange(c)
	nm0 := poolModel(c.N)
	model := nm0.ToModel()
	for j := lo; j < hi; j++ {
		r := rand.New(rand.NewSource(Mix(c.Seed, j)))
		clients := 2 + r.Intn(7)
		opsPer := 4 + r.Intn(9)
		p := newPool(c.K, c.N, tm, nm)
		m := &poolMonitor{}
		var wg sync.WaitGroup
		start := make(chan struct{})
		for g := 0; g < clients; g++ {
			wg.Add(1)
			go func(g int, seed int64) {
				defer wg.Done()
				rr := rand.New(rand.NewSource(seed))
				var held []interface{}
				<-start
				for i := 0; i < opsPer; i++ {
					if len(held) == 0 || rr.Intn(2) == 0 {
						o, _ := m.get(p, g)
						held = append(held, o)
					} else {
						o := held[len(held)-1]
						held = held[:len(held)-1]
						m.ret(p, g, o)
					}
					if rr.Intn(3) == 0 {
						runtime.Gosched()
					}
				}
			}(g, Mix(c.Seed, j*100+g))
		}
		close(start)
		wg.Wait()
		ids := map[uintptr]int{}
		var ops []porcupine.Operation
		for _, e := range m.events {
			id, ok := ids[e.Obj]
			if !ok {
				id = len(ids) + 1
				ids[e.Obj] = id
			}
			op := porcupine.Operation{ClientId: e.G, Call: e.Call, Return: e.Ret}
			if e.Get {
				op.Input = poolIn{Get: true}
				op.Output = poolOut{Obj: id, Fresh: e.Fresh}
			} else {
				op.Input = poolIn{Get: false, Obj: id}
				op.Output = poolOut{}
			}
			ops = append(ops, op)
		}
		res.Evals++
		res.NT = append(res.NT, Hash64(fmt.Sprint(feats, c.Seed, j)))
		res.Count("histories_checked", 1)
		res.Count("history_ops", int64(len(ops)))
		res.Max("history_clients", int64(clients))
		// no timeout = no pending timer in the worker, so that the runtime's deadlock detector stays
		// effective for the blocking phases; histories are tiny (<= 8 clients x 12 ops)
		r1, _ := porcupine.CheckOperationsVerbose(model, ops, 0)
		cc := c
		cc.Sub = j
		switch r1 {
		case porcupine.Illegal:
			var hs []string
			for _, e := range m.events {
				op := "Return"
				if e.Get {
					op = "Get"
				}
				hs = append(hs, fmt.Sprintf("g%d %s #%d fresh=%v [%d,%d]", e.G, op, ids[e.Obj], e.Fresh, e.Call, e.Ret))
			}
			env.Viol(res, Violation{Class: "not-linearizable", Features: feats, Detail: fmt.Sprintf("history of %d ops by %d clients on a pool of size %d has no linearization against the set model: %s", len(ops), clients, c.N, strings.Join(hs, "; ")), Case: cc})
		case porcupine.Unknown:
			res.Inconclusive = append(res.Inconclusive, fmt.Sprintf("porcupine timed out on a history of %d ops", len(ops)))
		default:
			res.Count("histories_linearizable", 1)
		}
		if m.dbl > 0 {
			env.Viol(res, Violation{Class: "double-hand-out", Features: feats, Detail: "ownership table: object handed out while held", Case: cc})
		}
		if len(res.Samples) == 0 && len(ops) > 0 {
			var hs []string
			for i, e := range m.events {
				if i >= 12 {
					break
				}
				op := "Return"
				if e.Get {
					op = "Get"
				}
				hs = append(hs, fmt.Sprintf("g%d %s #%d fresh=%v [%d,%d]", e.G, op, ids[e.Obj], e.Fresh, e.Call, e.Ret))
			}
			res.Sample(map[string]interface{}{"kind": "linearizability history", "size": c.N, "clients": clients, "ops": len(ops), "head": hs})
		}
	}
}

// ---- objects of a pool built WITHOUT maps are independent of one another

// probeLikeFresh runs the same probes on o and on a newly constructed object of its kind and
// returns a description of the first difference ("" if none).
func probeLikeFresh(o interface{}) string {
	inner := &zoo.Inner{A: 1, S: "x"}
	named := alt3.Inner{"k": 1}
	innerWire, _ := hspec.Encode(hspec.Object("Inner", []string{"a", "s"}, hspec.Int(1), hspec.String("x")), hspec.Canonical{}, hspec.EncOpts{})
	outcome := func(x interface{}) string {
		var out []string
		Guard(func() {
			switch t := x.(type) {
			case *hessian.Encoder:
				for _, v := range []interface{}{inner, named} {
					w := &mon.CountingWriter{}
					err := t.WriteTo(w, v)
					out = append(out, fmt.Sprintf("%x/%v", w.Buf.Bytes(), err != nil))
				}
			case *hessian.Decoder:
				v, err := t.Decode(innerWire)
				out = append(out, fmt.Sprintf("%T/%v", v, err != nil))
			case hessian.Serializer:
				for _, v := range []interface{}{named, inner} {
					b, err := t.ToBytes(v)
					out = append(out, fmt.Sprintf("%x/%v", b, err != nil))
				}
				v, err := t.ToObject(innerWire)
				out = append(out, fmt.Sprintf("%T/%v", v, err != nil))
			}
		})
		return strings.Join(out, " | ")
	}
	var fresh interface{}
	switch o.(type) {
	case *hessian.Encoder:
		fresh = hessian.NewEncoder(nil, nil)
	case *hessian.Decoder:
		fresh = hessian.NewDecoder(nil, nil)
	default:
		fresh = hessian.NewSerializer(nil, nil)
	}
	if got, want := outcome(o), outcome(fresh); got != want {
		return fmt.Sprintf("behaves as %s, a newly constructed object as %s", got, want)
	}
	return ""
}

func c17nilmaps(c Case, env *Env, res *Result, viol func(string, string)) {
	p := newPool(c.K, c.N, nil, nil)
	isRace := false
	for _, o := range c.Opt {
		isRace = isRace || o == "race"
	}
	if isRace {
		// M holders obtain objects from the empty pool at once and use them at once; nobody returns
		// anything, so every object is fresh and private: the race detector must stay silent
		var wg sync.WaitGroup
		start := make(chan struct{})
		for g := 0; g < c.M; g++ {
			wg.Add(1)
			go func(g int) {
				defer wg.Done()
				<-start
				for i := 0; i < c.Count; i++ {
					o := p.Get()
					Guard(func() {
						switch t := o.(type) {
						case *hessian.Encoder:
							t.WriteTo(&mon.CountingWriter{}, &zoo.WithInner{N: int32(i)})
							t.RegisterNameType(fmt.Sprintf("T%d", g), "x")
						case *hessian.Decoder:
							t.RegisterType(fmt.Sprintf("T%d", g), reflect.TypeOf(zoo.Inner{}))
						case hessian.Serializer:
							t.ToBytes(&zoo.WithInner{N: int32(i)})
						}
					})
					atomic.AddInt64(&res.Evals, 1)
				}
			}(g)
		}
		close(start)
		wg.Wait()
		res.NT = append(res.NT, Hash64(fmt.Sprint("nilmaps-race", c.K)))
		res.Count("concurrent_uses_of_fresh_objects_of_a_mapless_pool", int64(c.M*c.Count))
		return
	}
	o1, o2 := p.Get(), p.Get() // the pool is empty: two new objects
	// whatever is registered through (or learned by) o1 must not show in o2, nor in later new objects
	Guard(func() {
		switch t := o1.(type) {
		case *hessian.Encoder:
			t.RegisterNameType("Inner", "renamed.By.o1")
			t.WriteTo(&mon.CountingWriter{}, &zoo.WithInner{})
		case *hessian.Decoder:
			t.RegisterType("Inner", reflect.TypeOf(zoo.Inner{}))
			t.RegisterVal("Other", zoo.Inner2{})
		case hessian.Serializer:
			t.ToBytes(&zoo.Inner{A: 9}) // an encoder learns the class names it meets
			t.ToBytes(&zoo.WithInner{})
		}
	})
	res.Evals += 3
	res.NT = append(res.NT, Hash64(fmt.Sprint("nilmaps", c.K)), Hash64(fmt.Sprint("nilmaps2", c.K)))
	if d := probeLikeFresh(o2); d != "" {
		viol("fresh-not-independent", "pool built without maps: after registrations through ANOTHER object of the pool, an object obtained from the empty pool "+d)
	}
	o3 := p.Get()
	if d := probeLikeFresh(o3); d != "" {
		viol("fresh-not-independent", "pool built without maps: after registrations through another object, the NEXT object obtained from the empty pool "+d)
	}
	res.Count("independence_probes", 2)
	p.Return(o1)
	p.Return(o2)
	p.Return(o3)
}

// ---- an object its holder never returns is never handed out again

func c17abandon(c Case, env *Env, res *Result, viol func(string, string), tm map[string]reflect.Type, nm map[string]string) {
	p := newPool(c.K, c.N, tm, copyNames(nm))
	two := func(id int) []byte { // two top-level ints: the first is consumed when marking, the second identifies
		b, _ := hspec.Encode(hspec.Int(1), hspec.Canonical{}, hspec.EncOpts{})
		b2, _ := hspec.Encode(hspec.Int(int32(1000+id)), hspec.Canonical{}, hspec.EncOpts{})
		return append(b, b2...)
	}
	var writers []*mon.CountingWriter
	id := 0
	for round := 0; round < c.Count; round++ {
		// holders obtain objects from the EMPTY pool, start using them (which leaves a mark in the
		// object: its current writer / reader) and never return them
		for k := 0; k < c.N+3; k++ {
			o := p.Get()
			w := &mon.CountingWriter{}
			writers = append(writers, w)
			Guard(func() {
				switch t := o.(type) {
				case *hessian.Encoder:
					t.WriteTo(w, int32(id))
				case *hessian.Decoder:
					t.ReadFrom(mon.NewReader(two(id)))
				case hessian.Serializer:
					t.WriteTo(w, int32(id))
					t.ReadFrom(mon.NewReader(two(id)))
				}
			})
			id++
			o = nil
		}
		for i := 0; i < 3; i++ {
			runtime.GC()
			runtime.Gosched()
			time.Sleep(2 * time.Millisecond) // room for a finalizer goroutine, if the library has one; not a deciding deadline
		}
		marks := make([]int, len(writers))
		for i, w := range writers {
			marks[i] = w.Buf.Len()
		}
		// nothing was ever returned: every object obtained now must be new (no writer, no reader)
		for k := 0; k < c.N+2; k++ {
			o := p.Get()
			res.Evals++
			what := ""
			Guard(func() {
				switch t := o.(type) {
				case *hessian.Encoder:
					t.WriteObject(int32(7))
				case *hessian.Decoder:
					if v, err := t.ReadObject(); err == nil {
						what = fmt.Sprintf("continues the stream of an abandoned holder (read %v)", v)
					}
				case hessian.Serializer:
					t.Write(int32(7))
					if v, err := t.Read(); err == nil {
						what = fmt.Sprintf("continues the stream of an abandoned holder (read %v)", v)
					}
				}
			})
			for i, w := range writers {
				if w.Buf.Len() != marks[i] {
					what = fmt.Sprintf("writes into the writer of holder #%d, who obtained its object earlier and never returned it", i)
					marks[i] = w.Buf.Len()
				}
			}
			if what != "" {
				viol("abandoned-object-handed-out", fmt.Sprintf("round %d: nothing was ever returned to the pool, yet an object obtained from it %s", round, what))
			}
		}
	}
	res.NT = append(res.NT, Hash64(fmt.Sprint("abandon", c.K, c.N)), Hash64(fmt.Sprint("abandon2", c.K, c.N)))
	res.Count("abandoned_objects", int64(id))
	res.Count("garbage_collections_forced", int64(3*c.Count))
}

// ---- an object returned to a FULL pool is dropped: the pool keeps no reference to it

// c17dropped fills a pool, returns Count more objects than it can hold, forgets them and forces
// collections: every surplus object must become collectable (observed through finalizers) while the
// pool itself stays alive. Verdict on collection cycles, not on time: a dropped object's finalizer is
// queued by the first collection after the drop; 100 forced collections with a yield after each are
// given before the object counts as retained.
func c17dropped(c Case, env *Env, res *Result, viol func(string, string), tm map[string]reflect.Type, nm map[string]string) {
	p := newPool(c.K, c.N, tm, copyNames(nm))
	var finalized int64
	total := c.N + c.Count
	func() {
		objs := make([]interface{}, total)
		for i := range objs {
			objs[i] = p.Get() // the pool is empty: new objects
		}
		for _, o := range objs {
			switch t := o.(type) {
			case *hessian.Encoder:
				runtime.SetFinalizer(t, func(*hessian.Encoder) { atomic.AddInt64(&finalized, 1) })
			case *hessian.Decoder:
				runtime.SetFinalizer(t, func(*hessian.Decoder) { atomic.AddInt64(&finalized, 1) })
			default:
				// a Serializer is an interface over a pointer type of the library
				if rv := reflect.ValueOf(o); rv.Kind() == reflect.Ptr {
					func() {
						defer func() { recover() }()
						runtime.SetFinalizer(o, func(interface{}) { atomic.AddInt64(&finalized, 1) })
					}()
				}
			}
		}
		for _, o := range objs {
			p.Return(o) // the first N are kept, the rest meets a full pool
		}
	}()
	res.Evals++
	want := int64(c.Count)
	for cycle := 0; cycle < 100 && atomic.LoadInt64(&finalized) < want; cycle++ {
		runtime.GC()
		runtime.Gosched()
		time.Sleep(time.Millisecond)
	}
	got := atomic.LoadInt64(&finalized)
	if got < want {
		viol("pool-retains-dropped-objects", fmt.Sprintf("pool of size %d: %d objects were returned, so %d of them met a full pool and were dropped; after 100 forced collections only %d were collected - the pool (still alive) keeps references to dropped objects", c.N, total, want, got))
	}
	if got > want {
		viol("pool-loses-kept-objects", fmt.Sprintf("pool of size %d: %d objects were collected although only %d had been dropped", c.N, got, want))
	}
	// the pool is still usable and still hands out what it kept
	for i := 0; i < c.N; i++ {
		if o := p.Get(); o == nil {
			viol("nil-object", "Get returned nil")
		}
	}
	runtime.KeepAlive(p)
	res.NT = append(res.NT, Hash64(fmt.Sprint("dropped", c.K, c.N)), Hash64(fmt.Sprint("dropped2", c.K, c.N)))
	res.Count("objects_dropped_on_a_full_pool_and_collected", got)
}

// gateReader hands out its bytes; a Read after they are used up signals `entered` and waits for the gate
// (a connection on which the peer has sent nothing more yet).
type gateReader struct {
	b       []byte
	off     int
	entered chan struct{}
	gate    chan struct{}
	once    bool
}

func (g *gateReader) Read(p []byte) (int, error) {
	if g.off >= len(g.b) {
		if !g.once {
			g.once = true
			close(g.entered)
		}
		<-g.gate
		return 0, io.EOF
	}
	n := copy(p, g.b[g.off:])
	g.off += n
	return n, nil
}

// c17pending: the object comes back from a holder whose stream is still pending - bytes sitting in the holder's
// bufio.Writer over a sink that takes nothing at the moment, a reader on which the peer has sent nothing more.
// Return (and the next Get) must complete without touching the holder's stream. Decided by events: the call
// runs on a second goroutine and this one waits for "call returned" or "the sink / source was entered".
func c17pending(c Case, env *Env, res *Result, viol func(string, string), tm map[string]reflect.Type, nm map[string]string) {
	wire, _ := hspec.Encode(hspec.Int(7), hspec.Canonical{}, hspec.EncOpts{})
	for j := 0; j < c.Count; j++ {
		p := newPool(c.K, c.N, tm, copyNames(nm))
		for k := 0; k < j%3; k++ { // some idle objects next to it
			p.Return(p.Get())
		}
		o := p.Get()
		sink := &gateWriter{k: 1, entered: make(chan struct{}), gate: make(chan struct{})}
		src := &gateReader{b: wire, entered: make(chan struct{}), gate: make(chan struct{})}
		bw := bufio.NewWriterSize(sink, 4096)
		Guard(func() {
			switch t := o.(type) {
			case *hessian.Encoder:
				t.WriteTo(bw, "hello")
				if j%2 == 1 {
					t.WriteObject(int32(j))
				}
			case *hessian.Decoder:
				t.ReadFrom(bufio.NewReader(src))
			case hessian.Serializer:
				t.WriteTo(bw, "hello")
				t.ReadFrom(bufio.NewReader(src))
			}
		})
		res.Evals++
		res.NT = append(res.NT, Hash64(fmt.Sprint("pending", c.K, c.N, j)))
		if sink.calls > 0 || src.once {
			res.Inconclusive = append(res.Inconclusive, "the holder's own use already reached the stalled sink / source")
			close(sink.gate)
			close(src.gate)
			continue
		}
		// a holder that wrote into its own *bytes.Buffer and returned the object before using the buffer: the next
		// holder's ONE-SHOT calls are that holder's business and leave the buffer alone
		{
			own := &bytes.Buffer{}
			o2 := p.Get()
			Guard(func() {
				switch t := o2.(type) {
				case *hessian.Encoder:
					t.WriteTo(own, "first holder")
				case hessian.Serializer:
					t.WriteTo(own, "first holder")
				}
			})
			snap := append([]byte{}, own.Bytes()...)
			p.Return(o2)
			o3 := p.Get()
			Guard(func() {
				switch t := o3.(type) {
				case *hessian.Encoder:
					t.Encode("the second holder's one-shot value")
				case hessian.Serializer:
					t.ToBytes("the second holder's one-shot value")
					t.ToObject(wire)
				}
			})
			res.Count("one_shot_calls_after_a_holder_with_its_own_buffer", 1)
			if !bytes.Equal(own.Bytes(), snap) {
				viol("previous-holder-touched", fmt.Sprintf("a one-shot call by the next holder of a %s object (size %d) changed the previous holder's buffer from %x to %x", ctorNames[c.K], c.N, snap, own.Bytes()))
			}
			p.Return(o3)
		}
		for step, call := range []func(){func() { p.Return(o) }, func() { p.Get() }} {
			done := make(chan struct{})
			go func() { call(); close(done) }()
			what := []string{"Return", "the Get after it"}[step]
			select {
			case <-done:
				res.Count("calls_completed_with_a_pending_holder_stream", 1)
			case <-sink.entered:
				viol("blocks", fmt.Sprintf("%s on a %s of size %d is waiting inside Write of the last holder's writer (bytes pending in the holder's bufio.Writer, sink stalled)", what, ctorNames[c.K], c.N))
				close(sink.gate)
				<-done
				sink.entered = make(chan struct{})
			case <-src.entered:
				viol("blocks", fmt.Sprintf("%s on a %s of size %d is waiting inside Read of the last holder's reader", what, ctorNames[c.K], c.N))
				close(src.gate)
				<-done
				src.entered = make(chan struct{})
			}
		}
	}
}
