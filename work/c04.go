package work

import (
	"fmt"
	"math/rand"
	"reflect"
	"strings"
	"time"

	hessian "github.com/vogo/gohessian"

	"verif/hspec"
	"verif/mon"
	"verif/zoo"
)

// C04 — shared references and cycles survive; encoder and decoder agree on ref ordinals.
type c04 struct{}

func init() { Register(c04{}) }

func (c04) ID() string    { return "C04" }
func (c04) Level() string { return "exploration" }
func (c04) Rule() string {
	return "exhaustive: node type with two pointer slots, every assignment of each slot in {nil, n0..n(k-1)} for k = 1..4 nodes (all nodes reachable from n0; quick: k <= 3 plus a sample of k = 4), each combined with every filler placed in front of the shared pointers {none, empty map, non-empty map, empty slice, non-empty slice, timestamp, string, byte slice, nested struct, named byte-slice type} and wrapped in a holder that ends with probe references to an early and a late node; random: graphs up to 200 nodes over node types with pointer, []*N, map[string]*N and *[]*N fields, the same slice/map in sibling fields, two slices of one array with different lengths. Oracle: encode returns within 5 CPU-seconds; the reference decoder's graph is bisimilar to zoo.Denote(g) with identity agreement on struct pointers (every x51 k resolves, under the document's numbering, to the node the Go pointer pointed to); the decoded Go graph is Equiv and has the same sharing partition (SameSharing); the reference encoder's rendering of Denote(g) decodes to the same graph. Non-trivial = graph has a shared or cyclic pointer; distinct by canonical form."
}

// "encoding terminates": 60 CPU-seconds inside one journalled graph (bound per encode call: 5) is a call
// that does not return - a violation, decided on CPU time
func (c04) ProcOpts() Proc {
	return Proc{RlimitAS: 4 << 30, MaxStack: 64 << 20, StallSec: 90, StallCPU: 60}
}
func (c04) Exhaustive(tier string) (bool, string) {
	if tier == "thorough" {
		return true, "every edge assignment of 1..4 two-slot nodes x 10 fillers"
	}
	return true, "every edge assignment of 1..3 two-slot nodes x 10 fillers (4 nodes sampled)"
}

var fillers = []string{"none", "empty-map", "map", "empty-slice", "slice", "time", "string", "bin", "struct", "named-bytes"}

func (c04) Cases(tier string, seed int64, kf *KnownFindings) []Case {
	var cs []Case
	add := func(c Case) { c.Sub = -1; cs = append(cs, c) }
	add(Case{Kind: "chain", Count: 6})
	add(Case{Kind: "valuepos", Count: 8})
	for fi := range fillers {
		add(Case{Kind: "exh", N: 1, K: fi, A: 0, B: 4})
		add(Case{Kind: "exh", N: 2, K: fi, A: 0, B: 81})
		add(Case{Kind: "exh", N: 3, K: fi, A: 0, B: 4096})
	}
	if tier == "quick" {
		for a := int64(0); a < 390625; a += 39063 {
			add(Case{Kind: "exh", N: 4, K: 0, A: a, B: a + 39063, M: 7})
		}
		for i := 0; i < 16; i++ {
			add(Case{Kind: "rand", Seed: Mix(seed, i), Count: 60})
		}
		add(Case{Kind: "shr", Seed: Mix(seed, 99), Count: 200})
	} else {
		for fi := range fillers {
			for a := int64(0); a < 390625; a += 24415 {
				add(Case{Kind: "exh", N: 4, K: fi, A: a, B: a + 24415, M: 1})
			}
		}
		for i := 0; i < 128; i++ {
			add(Case{Kind: "rand", Seed: Mix(seed, i), Count: 400})
		}
		for i := 0; i < 16; i++ {
			add(Case{Kind: "shr", Seed: Mix(seed, 99+i), Count: 2000})
		}
	}
	return cs
}

// buildGF builds the k-node graph number code (mixed radix (k+1)^(2k)); ok=false when a node is unreachable from n0.
func buildGF(k int, code int64, filler int) (*zoo.GHolder, bool, bool) {
	nodes := make([]*zoo.GF, k)
	for i := range nodes {
		nodes[i] = &zoo.GF{Id: int32(i)}
		applyFiller(nodes[i], filler, i)
	}
	pick := func() *zoo.GF {
		d := int(code % int64(k+1))
		code /= int64(k + 1)
		if d == 0 {
			return nil
		}
		return nodes[d-1]
	}
	for i := range nodes {
		nodes[i].A = pick()
		nodes[i].B = pick()
	}
	// reachability from n0, in traversal order
	seen := map[*zoo.GF]bool{}
	var order []*zoo.GF
	shared := false
	var walk func(n *zoo.GF)
	walk = func(n *zoo.GF) {
		if n == nil {
			return
		}
		if seen[n] {
			shared = true
			return
		}
		seen[n] = true
		order = append(order, n)
		walk(n.A)
		walk(n.B)
	}
	walk(nodes[0])
	if len(order) != k {
		return nil, false, false
	}
	return &zoo.GHolder{Root: nodes[0], Early: nodes[0], Late: order[len(order)-1]}, true, shared
}

func applyFiller(n *zoo.GF, filler, i int) {
	switch fillers[filler] {
	case "empty-map":
		n.M = map[string]int32{}
	case "map":
		n.M = map[string]int32{"k": int32(i)}
	case "empty-slice":
		n.S = []int32{}
	case "slice":
		n.S = []int32{1, int32(i)}
	case "time":
		n.T = time.Unix(1500000000+int64(i), 123e6)
	case "string":
		n.Str = "s"
	case "bin":
		n.Bin = []byte{1, 2}
	case "struct":
		n.In = zoo.Inner{A: int32(i), S: "in"}
	case "named-bytes":
		n.Dg = zoo.Digest{9, byte(i)}
	}
}

// graphCheck applies all C04 oracles to one graph value.
func graphCheck(env *Env, res *Result, c Case, sub int, val interface{}, feats []string, nodes int) {
	cc := c
	cc.Sub = sub
	res.Evals++
	viol := func(class, detail string) {
		env.Viol(res, Violation{Class: class, Features: feats, Detail: detail, Case: cc, Input: describe(val)})
	}
	var tm map[string]reflect.Type
	var nm map[string]string
	var wire []byte
	var encErr error
	cpu0 := mon.CPUSeconds()
	untyped := false
	for _, f := range feats {
		if f == "untyped-lists" {
			untyped = true
		}
	}
	pi, _ := Guard(func() {
		tm, nm = hessian.ExtractTypeNameMap(val)
		if untyped {
			// a name map that registers classes only: every slice is written as an untyped list
			for k, v := range nm {
				if strings.HasPrefix(k, "[") || strings.HasPrefix(v, "[") {
					delete(nm, k)
				}
			}
		}
		wire, encErr = hessian.ToBytes(val, nm)
	})
	if d := mon.CPUSeconds() - cpu0; d > 5 && nodes <= 200 {
		viol("budget:cpu", fmt.Sprintf("encoding a graph of %d nodes took %.1f CPU-seconds", nodes, d))
	}
	if pi != nil {
		viol("panic@encode", pi.Class+": "+pi.Msg)
		return
	}
	if encErr != nil {
		viol("enc-error", encErr.Error())
		return
	}
	want := safeDenote(val, nm)
	if want == nil {
		res.Inconclusive = append(res.Inconclusive, "harness could not denote the graph")
		return
	}
	// wire side: refs resolve to the intended nodes
	got, p, err := hspec.Parse(wire)
	if err != nil {
		viol(parseErrClass(err), fmt.Sprintf("reference decoder rejects %s: %v", hexClip(wire), err))
		return
	}
	refs := 0
	hspec.Walk(got, func(n *hspec.Value) {
		if n.Kind == hspec.KRef {
			refs++
		}
	})
	res.Count("refs_on_the_wire", int64(refs))
	res.Max("containers_numbered", int64(len(p.Refs)))
	if d, tag := hspec.BisimTag(want, got, hspec.CmpOpts{NullEmpty: true, IgnoreMapType: true}); d != "" {
		viol("wire-mismatch:"+tag, fmt.Sprintf("%s; wire %s", d, hexClip(wire)))
		return
	}
	// decoder side
	var dec interface{}
	var decErr error
	pi, _ = Guard(func() { dec, decErr = hessian.ToObject(wire, tm) })
	if pi != nil {
		viol("panic@decode", pi.Class+": "+pi.Msg)
		return
	}
	if decErr != nil {
		viol("dec-error", fmt.Sprintf("(%s) %v", hexClip(wire), decErr))
		return
	}
	if d := zoo.Equiv(val, dec, zoo.EquivOpts{}); d != "" {
		viol("mismatch", fmt.Sprintf("%s; wire %s", d, hexClip(wire)))
		return
	}
	if d := zoo.SameSharing(val, dec); d != "" {
		viol("sharing", fmt.Sprintf("%s; wire %s", d, hexClip(wire)))
		return
	}
	// decoder side on a foreign rendering: the reference encoder writes Denote(g) (refs at every re-occurrence)
	if want != nil && sub%3 == 0 {
		rb, _ := hspec.Encode(want, hspec.Canonical{}, hspec.EncOpts{})
		var dec2 interface{}
		pi, _ = Guard(func() { dec2, decErr = hessian.ToObject(rb, tm) })
		switch {
		case pi != nil:
			viol("refenc:panic@decode", pi.Class+": "+pi.Msg+"; reference rendering "+hexClip(rb))
		case decErr != nil:
			viol("refenc:dec-error", fmt.Sprintf("(%s) %v", hexClip(rb), decErr))
		default:
			if d := zoo.Equiv(val, dec2, zoo.EquivOpts{}); d != "" {
				viol("refenc:mismatch", fmt.Sprintf("%s; reference rendering %s", d, hexClip(rb)))
			} else if d := zoo.SameSharingNoLists(val, dec2); d != "" {
				viol("refenc:sharing", fmt.Sprintf("%s; reference rendering %s", d, hexClip(rb)))
			}
		}
		res.Count("reference_renderings_decoded", 1)
	}
	// the same graph as the SECOND value of a stream whose first value is another cyclic graph:
	// ordinals keep counting across the values of one stream on both sides
	if sub%4 == 1 {
		first := &zoo.Node{Val: 1}
		first.Next = &zoo.Node{Val: 2, Prev: first}
		first.Next.Next = first
		ftm, fnm := hessian.ExtractTypeNameMap(first)
		for k, v := range tm {
			ftm[k] = v
		}
		for k, v := range nm {
			fnm[k] = v
		}
		var outs [2]interface{}
		var serr error
		pi, _ = Guard(func() {
			w := &mon.CountingWriter{}
			enc := hessian.NewEncoder(w, fnm)
			if serr = enc.WriteObject(first); serr != nil {
				return
			}
			if serr = enc.WriteObject(val); serr != nil {
				return
			}
			dec := hessian.NewDecoder(mon.NewReader(w.Buf.Bytes()), ftm)
			if outs[0], serr = dec.ReadObject(); serr != nil {
				return
			}
			outs[1], serr = dec.ReadObject()
		})
		switch {
		case pi != nil:
			viol("stream:panic", pi.Class+": "+pi.Msg)
		case serr != nil:
			viol("stream:error", serr.Error())
		default:
			if d := zoo.Equiv(first, outs[0], zoo.EquivOpts{}); d != "" {
				viol("stream:mismatch", "first value: "+d)
			} else if d := zoo.Equiv(val, outs[1], zoo.EquivOpts{}); d != "" {
				viol("stream:mismatch", "second value of the stream: "+d)
			} else if d := zoo.SameSharing(val, outs[1]); d != "" {
				viol("stream:sharing", "second value of the stream: "+d)
			}
		}
		res.Count("graphs_as_second_value_of_a_stream", 1)
	}
	if len(res.Samples) == 0 && refs > 0 {
		res.Sample(map[string]interface{}{"graph": describe(val), "wire": hexClip(wire), "refs": refs})
	}
}

type c04Empty struct{}

type c04Marked struct {
	M  *c04Empty
	A  *zoo.GNode
	L  []interface{}
	M2 *c04Empty
	B  *zoo.GNode
}

type c04Event struct {
	At   time.Time
	Log  *c04Log
	Prev *c04Event
}

type c04Log struct {
	Name   string
	Events []*c04Event
}

type c04Maps struct {
	Id   int32
	Maps []map[string]*c04Maps
	MM   map[string]map[string]*c04Maps
	Tags map[string]*c04Maps
}

func (c04) Run(c Case, env *Env) Result {
	var res Result
	switch c.Kind {
	case "chain":
		// long doubly linked rings and chains: nesting on the wire grows with the number of nodes
		lo, hi := subRange(c)
		for j := lo; j < hi; j++ {
			n := []int{3, 200, 900, 1500, 3000, 5000}[j%6]
			nodes := make([]*zoo.Node, n)
			for i := range nodes {
				nodes[i] = &zoo.Node{Val: int32(i)}
			}
			for i := range nodes {
				nodes[i].Next = nodes[(i+1)%n]
				nodes[i].Prev = nodes[(i+n-1)%n]
			}
			if j%2 == 1 {
				nodes[n-1].Next = nil // an open chain
				nodes[0].Prev = nil
			}
			env.J(c.Idx, j)
			res.NTCount++
			res.Max("chain_nodes", int64(n))
			graphCheck(env, &res, c, j*4+2, nodes[0], []string{"long-chain", fmt.Sprintf("nodes=%d", n)}, n)
		}
	case "valuepos":
		// a list in VALUE position (the top-level value, a map value, an element of another list) that is
		// referred to from inside itself while it is still being read
		lo, hi := subRange(c)
		for j := lo; j < hi; j++ {
			n := []int{3, 3, 1100, 5}[j%4]
			nodes := make([]*zoo.GNode, n)
			for i := range nodes {
				nodes[i] = &zoo.GNode{Id: int32(i)}
			}
			l := append([]*zoo.GNode(nil), nodes...)
			nodes[1].Kids = l // an element holds the list it is an element of
			nodes[n-1].Kids = l
			nodes[0].A = nodes[n-1]
			var val interface{}
			feats := []string{"list-in-value-position", fmt.Sprintf("nodes=%d", n)}
			switch j / 4 {
			case 0:
				val = l
				feats = append(feats, "top-level-list")
			default:
				val = &zoo.MpKids{M: map[string][]*zoo.GNode{"a": l}, N: int32(j)}
				feats = append(feats, "list-as-map-value")
			}
			env.J(c.Idx, j)
			res.NTCount++
			graphCheck(env, &res, c, j*4+2, val, feats, n)
			// a cyclic graph over a node type that has a typed (named) map in front of two lists of one list type
			gms := make([]*zoo.GM, 4)
			for i := range gms {
				gms[i] = &zoo.GM{Id: int32(i), M: zoo.NamedMap{"k": int32(i + j)}}
			}
			for i, g := range gms {
				g.A = []*zoo.GM{gms[(i+1)%4], gms[(i+2)%4]}
				g.B = []*zoo.GM{gms[(i+3)%4], g}
				g.N = gms[(i+1)%4]
			}
			if j%2 == 1 {
				gms[2].M = nil // one node without the map
			}
			graphCheck(env, &res, c, j*4+3, gms[0], []string{"typed-map-before-lists", "nodes=4"}, 4)
			// the root handed over behind ONE MORE pointer (ToBytes(&p) with p already a *T): the node is the
			// node whichever way it reached the encoder
			p, q := &zoo.GNode{Id: 1}, &zoo.GNode{Id: 2}
			p.A, q.A, q.B = q, p, q
			q.Kids = []*zoo.GNode{p, q}
			if j%2 == 1 {
				q.ByKey = map[string]*zoo.GNode{"p": p}
			}
			graphCheck(env, &res, c, j*4+1, &p, []string{"root-behind-a-second-pointer", "nodes=2"}, 2)
			// an instance of a class WITHOUT fields in front of shared nodes (it takes an ordinal like any object)
			{
				p2, q2 := &zoo.GNode{Id: 5}, &zoo.GNode{Id: 6}
				p2.A, q2.A = q2, p2
				mk := &c04Marked{M: &c04Empty{}, A: p2, L: []interface{}{&c04Empty{}, q2, p2}, B: p2}
				if j%2 == 1 {
					mk.M2 = mk.M
				}
				graphCheck(env, &res, c, j*4+1, mk, []string{"fieldless-instance-before-shared-nodes", "nodes=2"}, 2)
			}
			// one log of 66000 events, each with a timestamp, a pointer back to the log and one to its predecessor:
			// three levels deep, however many values of whatever kind have been written before
			if j == 0 {
				lg := &c04Log{Name: "log"}
				var prev *c04Event
				for i := 0; i < 66000; i++ {
					ev := &c04Event{At: time.Unix(int64(1500000000+i), 5e6), Log: lg, Prev: prev} // (not a whole second: the compact date form is KF-C02-01)
					lg.Events = append(lg.Events, ev)
					prev = ev
				}
				res.Max("timestamps_in_one_message", 66000)
				graphCheck(env, &res, c, 3, lg, []string{"many-timestamps-in-one-message", "nodes=66001"}, 66001)
			}
			// ONE map reachable as two elements of a typed list of maps, as two values of a map of maps and as a
			// map field: one map after decoding
			if j%2 == 0 {
				a := &c04Maps{Id: int32(j)}
				m := map[string]*c04Maps{"a": a, "b": {Id: 9}}
				a.Maps = []map[string]*c04Maps{m, {"other": a}, m}
				a.MM = map[string]map[string]*c04Maps{"x": m, "y": m}
				a.Tags = m
				graphCheck(env, &res, c, j*4, a, []string{"one-map-in-list-elements-map-values-and-a-field", "nodes=2"}, 2)
			}
		}
	case "lit":
		if f, ok := literals[c.S]; ok {
			val, feats := f()
			res.NTCount++
			graphCheck(env, &res, c, 0, val, feats, 4)
		}
	case "exh":
		step := int64(1)
		if c.M > 1 {
			step = int64(c.M)
		}
		for code := c.A; code < c.B; code += step {
			sub := int(code - c.A)
			if c.Sub >= 0 && sub != c.Sub {
				continue
			}
			if sub < c.From {
				continue
			}
			g, ok, shared := buildGF(c.N, code, c.K)
			if !ok {
				continue
			}
			if sub%64 == 0 {
				env.J(c.Idx, sub)
			}
			feats := []string{fmt.Sprintf("nodes=%d", c.N), "filler=" + fillers[c.K]}
			if shared {
				res.NTCount++
				feats = append(feats, "shared-ptr")
			}
			graphCheck(env, &res, c, sub, g, feats, c.N)
		}
	case "rand":
		lo, hi := subRange(c)
		for j := lo; j < hi; j++ {
			r := rand.New(rand.NewSource(Mix(c.Seed, j)))
			n := 1 + r.Intn(200)
			if j%4 != 0 {
				n = 1 + r.Intn(12)
			}
			nodes := make([]*zoo.GNode, n)
			for i := range nodes {
				nodes[i] = &zoo.GNode{Id: int32(i)}
			}
			pick := func() *zoo.GNode {
				if r.Intn(3) == 0 {
					return nil
				}
				return nodes[r.Intn(n)]
			}
			nilElems := !env.Avoid("C04", "ptr.nil@elem")
			for _, nd := range nodes {
				nd.A, nd.B = pick(), pick()
				for k := r.Intn(4); k > 0; k-- {
					p := pick()
					if p == nil && !nilElems {
						continue
					}
					nd.Kids = append(nd.Kids, p)
				}
				if r.Intn(3) == 0 {
					nd.ByKey = map[string]*zoo.GNode{}
					for k := r.Intn(3); k > 0; k-- {
						nd.ByKey[fmt.Sprintf("k%d", k)] = nodes[r.Intn(n)]
					}
				}
			}
			gfeats := []string{"random-graph", fmt.Sprintf("nodes<=%d", (n/50+1)*50)}
			// the same slice held by several nodes (also by a node that is an element of it)
			if r.Intn(3) == 0 {
				for k := 1 + r.Intn(3); k > 0; k-- {
					a, b := nodes[r.Intn(n)], nodes[r.Intn(n)]
					if len(a.Kids) > 0 {
						b.Kids = a.Kids
						if r.Intn(2) == 0 {
							b.Kids = a.Kids[:len(a.Kids):len(a.Kids)] // the same list through a clipped header
						}
						gfeats = append(gfeats, "shared-kids-slice")
					}
				}
			}
			// the same MAP held by several nodes, one of them reachable from the map's own values
			// (a back-reference to a map that is still being read)
			if r.Intn(3) == 0 {
				for k := 1 + r.Intn(3); k > 0; k-- {
					a := nodes[r.Intn(n)]
					if len(a.ByKey) == 0 {
						a.ByKey = map[string]*zoo.GNode{"s": nodes[r.Intn(n)]}
					}
					for _, holder := range a.ByKey {
						holder.ByKey = a.ByKey // holder is a value of the map it now holds
						break
					}
					nodes[r.Intn(n)].ByKey = a.ByKey
					gfeats = append(gfeats, "shared-bykey-map")
				}
			}
			// a list longer than the decoder's preallocation bound, with a cycle through it
			if j%16 == 5 {
				long := make([]*zoo.GNode, 1100+r.Intn(200))
				for i := range long {
					long[i] = nodes[r.Intn(n)]
				}
				nodes[0].Kids = long
				nodes[r.Intn(n)].Kids = long
				gfeats = append(gfeats, "long-shared-list")
			}
			if j%3 == 1 {
				gfeats = append(gfeats, "untyped-lists")
			}
			env.J(c.Idx, j)
			res.NT = append(res.NT, Hash64(fmt.Sprintf("rand|%d|%d", c.Seed, j)))
			res.Max("graph_nodes", int64(n))
			for _, f := range gfeats[2:] {
				res.Count(f, 1)
			}
			graphCheck(env, &res, c, j, nodes[0], gfeats, n)
		}
	case "shr":
		lo, hi := subRange(c)
		for j := lo; j < hi; j++ {
			r := rand.New(rand.NewSource(Mix(c.Seed, j)))
			s := &zoo.Shr{}
			feats := []string{"type=Shr"}
			arr := []int32{1, 2, 3, 4, 5}
			switch r.Intn(4) {
			case 0:
				s.S1, s.S2 = arr, arr
				feats = append(feats, "same-slice-twice")
			case 1:
				s.S1, s.S2 = arr[:2], arr[:3]
				feats = append(feats, "two-lengths-one-array")
			case 2:
				s.S1, s.S2 = arr[:3], arr[1:4]
				feats = append(feats, "overlapping-slices")
			}
			switch r.Intn(3) {
			case 0:
				m := map[string]int32{"a": 1, "b": 2}
				s.M1, s.M2 = m, m
				feats = append(feats, "same-map-twice")
			case 1:
				s.M1 = map[string]int32{"a": 1}
				s.M2 = map[string]int32{"a": 1}
			}
			in := &zoo.Inner{A: 5, S: "x"}
			switch r.Intn(4) {
			case 0:
				ps := []*zoo.Inner{in, {A: 6, S: "y"}, in}
				s.P1, s.P2 = ps, ps
				s.X = in
				feats = append(feats, "same-ptr-slice-twice", "diamond-through-slice")
			case 1:
				s.P1 = []*zoo.Inner{in}
				s.P2 = []*zoo.Inner{in}
				s.X = in
				feats = append(feats, "diamond-through-slice")
			case 2:
				ps := []*zoo.Inner{in, in}
				s.PS = &ps
				s.P1 = ps
				feats = append(feats, "ptr-to-slice")
			case 3:
				// one list held through two headers that differ only in capacity (s and s[:len(s):len(s)])
				ps := make([]*zoo.Inner, 2, 8)
				ps[0], ps[1] = in, &zoo.Inner{A: 7, S: "z"}
				s.P1, s.P2 = ps, ps[:len(ps):len(ps)]
				feats = append(feats, "same-list-clipped-capacity")
			}
			if r.Intn(3) == 0 {
				feats = append(feats, "untyped-lists")
			}
			env.J(c.Idx, j)
			res.NT = append(res.NT, Hash64(fmt.Sprint(feats)))
			for _, f := range feats {
				res.Count(f, 1)
			}
			graphCheck(env, &res, c, j, s, feats, 4)
			// the same map behind a pointer field and in plain fields
			if j%4 == 0 {
				m := map[string]int32{"a": 1, "b": int32(j)}
				pm := &zoo.PtrMap{X: in}
				pf := []string{"type=PtrMap"}
				switch r.Intn(4) {
				case 0:
					pm.PM, pm.M = &m, m
					pf = append(pf, "same-map-via-pointer-and-plain")
				case 1:
					pm.M, pm.PM = m, &m
					pm.M2 = m
					pf = append(pf, "same-map-via-pointer-and-plain", "same-map-twice")
				case 2:
					pm.M, pm.M2 = m, m
					pf = append(pf, "same-map-twice")
				default:
					pm.M = m
					pm.M2 = map[string]int32{"a": 1, "b": int32(j)}
					pf = append(pf, "equal-but-distinct-maps")
				}
				for _, f := range pf {
					res.Count(f, 1)
				}
				graphCheck(env, &res, c, j, pm, pf, 2)
			}
		}
	}
	return res
}
