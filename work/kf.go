package work

import (
	"encoding/json"
	"os"
	"path/filepath"
)

// Finding is one entry of the committed known-findings file (read-only at run time).
type Finding struct {
	ID       string `json:"id"`
	Property string `json:"property"`
	Status   string `json:"status"` // open | fixed
	Feature  string `json:"feature"`
	Failure  string `json:"failure"`
	Witness  string `json:"witness"`
	What     string `json:"what"`
	Commit   string `json:"commit,omitempty"`
	Line     string `json:"line,omitempty"` // "fixed: property=<id> <commit> <what failed>"
}

type KnownFindings struct {
	Findings []Finding `json:"findings"`
	dir      string
}

func LoadKF(verifDir string) (*KnownFindings, error) {
	kf := &KnownFindings{dir: verifDir}
	b, err := os.ReadFile(filepath.Join(verifDir, "known_findings.json"))
	if err != nil {
		if os.IsNotExist(err) {
			return kf, nil
		}
		return nil, err
	}
	if err := json.Unmarshal(b, kf); err != nil {
		return nil, err
	}
	return kf, nil
}

// OpenFeature: is the feature listed by an open finding of the property?
func (k *KnownFindings) OpenFeature(prop, feature string) bool {
	if k == nil {
		return false
	}
	for _, f := range k.Findings {
		if f.Status == "open" && f.Property == prop && f.Feature == feature {
			return true
		}
	}
	return false
}

// Explain returns the id of the open finding explaining a violation, or "".
func (k *KnownFindings) Explain(prop string, v *Violation) string {
	if k == nil {
		return ""
	}
	for _, f := range k.Findings {
		if f.Status != "open" || f.Property != prop || f.Failure != v.Class {
			continue
		}
		for _, ft := range v.Features {
			if ft == f.Feature {
				return f.ID
			}
		}
	}
	return ""
}

func (k *KnownFindings) For(prop string) []Finding {
	var out []Finding
	if k == nil {
		return out
	}
	for _, f := range k.Findings {
		if f.Property == prop {
			out = append(out, f)
		}
	}
	return out
}

// Witness is the committed, replayable case of a finding.
type Witness struct {
	Property string `json:"property"`
	Case     Case   `json:"case"`
	Note     string `json:"note,omitempty"`
}

func (k *KnownFindings) LoadWitness(f Finding) (*Witness, error) {
	b, err := os.ReadFile(filepath.Join(k.dir, f.Witness))
	if err != nil {
		return nil, err
	}
	w := &Witness{}
	if err := json.Unmarshal(b, w); err != nil {
		return nil, err
	}
	return w, nil
}
