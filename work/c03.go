package work

import (
	"bytes"
	"fmt"
	"math/rand"
	"reflect"
	"strings"
	"time"

	hessian "github.com/vogo/gohessian"

	"verif/hspec"
	"verif/mon"
	"verif/zoo"
)

// C03 — the decoder accepts every legal rendering of a value.
type c03 struct{}

func init() { Register(c03{}) }

func (c03) ID() string    { return "C03" }
func (c03) Level() string { return "exploration" }
func (c03) Rule() string {
	return "abstract values = zoo.Denote of generated Go values (so a suitable type map exists by construction) x encoding choices made by the reference encoder: int/long/double widths, any chunking of strings and byte arrays (growing and empty chunks, all final-chunk forms, x41 and legacy 'b'), the six list productions, type literal vs back-reference, short vs 'O' long object form, class definitions inline or hoisted, x4a/x4b dates. The whole choice space is enumerated when it has <= 4096 points, else seeded choice vectors plus the all-maximal vector; every example of the published document is decoded verbatim. Oracle: ToObject / Decoder.ReadObject of each rendering must yield a Go value Equiv (and with the same pointer sharing) to the original value, and consume exactly the rendering. Non-trivial = rendering differs from the canonical one; distinct by rendering hash."
}
func (c03) ProcOpts() Proc { return Proc{RlimitAS: 4 << 30} }

var c03choiceFeatures = []string{"int.w2", "int.w3", "int.w5", "long.w2", "long.w3", "long.w5", "long.w9", "dbl.w2", "dbl.w3", "dbl.w5", "dbl.w9",
	"date.x4b", "chunk.split", "chunk.empty", "chunk.empty-lead", "chunk.empty-tail", "chunk.grow", "str.medium", "str.S", "bin.x34", "bin.B", "bin.x62", "bin.nonfinal",
	"list.V", "list.x55", "list.x58", "list.x57", "type.index", "obj.O", "def.hoist", "def.float", "name.chunked"}

func (c03) Cases(tier string, seed int64, kf *KnownFindings) []Case {
	var cs []Case
	add := func(c Case) { c.Sub = -1; cs = append(cs, c) }
	add(Case{Kind: "examples", Count: 1})
	add(Case{Kind: "longform", Count: 3})
	per, vecs := 4, 8
	if tier == "thorough" {
		per, vecs = 120, 200
	}
	for i, e := range zoo.Types {
		chunk := per
		if chunk > 30 {
			chunk = 30
		}
		for off := 0; off < per; off += chunk {
			add(Case{Kind: "zoo", Type: e.Name, Seed: Mix(seed, i*100+off), Count: chunk, M: vecs})
		}
	}
	// scalars: exhaustive over every rendering
	add(Case{Kind: "scalars", Seed: Mix(seed, 77), Count: 1})
	return cs
}

func c03opts(env *Env) hspec.EncOpts {
	o := hspec.EncOpts{Disable: map[string]bool{}}
	for _, f := range c03choiceFeatures {
		if env.Avoid("C03", "choice:"+f) {
			o.Disable[f] = true
		}
	}
	return o
}

// decodeBoth decodes one rendering through both entry points.
func decodeBoth(b []byte, tm map[string]reflect.Type) (interface{}, error, *PanicInfo, string) {
	var out interface{}
	var err error
	pi, _ := Guard(func() { out, err = hessian.ToObject(b, tm) })
	if pi != nil || err != nil {
		return out, err, pi, "ToObject"
	}
	var out2 interface{}
	var err2 error
	rd := mon.NewReader(b)
	pi, _ = Guard(func() {
		d := hessian.NewDecoder(rd, tm)
		out2, err2 = d.ReadObject()
	})
	if pi != nil || err2 != nil {
		return out2, err2, pi, "Decoder.ReadObject"
	}
	if rd.Off != len(b) {
		return out2, fmt.Errorf("framing: Decoder.ReadObject consumed %d of %d bytes", rd.Off, len(b)), nil, "Decoder.ReadObject"
	}
	if m := zoo.Equiv(out, out2, zoo.EquivOpts{}); m != "" && reflect.TypeOf(out) == reflect.TypeOf(out2) {
		return out2, fmt.Errorf("entry points disagree: %s", m), nil, "Decoder.ReadObject"
	}
	return out, nil, nil, ""
}

func (c03) Run(c Case, env *Env) Result {
	var res Result
	opts := c03opts(env)
	switch c.Kind {
	case "examples":
		c03examples(c, env, &res)
		return res
	case "scalars":
		c03scalars(c, env, &res, opts)
		return res
	case "longform":
		// a flat message of many instances, every one in the long form ('O' int) / every one in the
		// short form / alternating: whatever a decoder keeps per instance must be released per instance
		lo, hi := subRange(c)
		for j := lo; j < hi; j++ {
			n := 12500
			l := hspec.List("")
			want := make([]interface{}, n)
			for i := 0; i < n; i++ {
				l.Elems = append(l.Elems, hspec.Object("Inner", []string{"a", "s"}, hspec.Int(int32(i)), hspec.String("x")))
				want[i] = &zoo.Inner{A: int32(i), S: "x"}
			}
			k := 0
			ch := hspec.FuncChooser(func(point string, m int) int {
				if point == "obj" {
					k++
					if j == 0 || (j == 2 && k%2 == 0) {
						return m - 1 // long form
					}
				}
				return 0
			})
			b, _ := hspec.Encode(l, ch, hspec.EncOpts{})
			tm, _ := hessian.ExtractTypeNameMap(&zoo.Inner{})
			res.Evals++
			res.NT = append(res.NT, Hash64(fmt.Sprintf("longform|%d", j)))
			cc := c
			cc.Sub = j
			feats := []string{"many-instances", []string{"choice:obj.O", "short-form", "choice:obj.O alternating"}[j]}
			out, err, pi, entry := decodeBoth(b, tm)
			switch {
			case pi != nil:
				env.Viol(&res, Violation{Class: "panic", Features: feats, Detail: entry + ": " + pi.Msg, Case: cc})
			case err != nil:
				env.Viol(&res, Violation{Class: "dec-error", Features: feats, Detail: fmt.Sprintf("%s on a flat list of %d instances (%s): %v", entry, n, hexClip(b), err), Case: cc})
			default:
				if d := zoo.Equiv(want, out, zoo.EquivOpts{}); d != "" {
					env.Viol(&res, Violation{Class: "mismatch", Features: feats, Detail: d, Case: cc})
				}
			}
		}
		return res
	}
	e, _ := zoo.Lookup(c.Type)
	lo, hi := subRange(c)
	cfg := zooCfg(env, "C01")
	cfg.MaxLen, cfg.StrMax, cfg.MaxDepth, cfg.Lens = 3, 6, 3, nil
	for j := lo; j < hi; j++ {
		if typeAvoided(env, "C01", e) && !env.Replay {
			res.Skipped++
			continue
		}
		share := 0.0
		if e.Has("recursive") {
			share = 0.3
		}
		val, vfeats := zooValue(e, Mix(c.Seed, j), cfg, share)
		env.J(c.Idx, j)
		cc := c
		cc.Sub = j
		var tm map[string]reflect.Type
		var nm map[string]string
		pi, _ := Guard(func() { tm, nm = hessian.ExtractTypeNameMap(val) })
		if pi != nil {
			continue
		}
		// the library's own rendering must decode (otherwise the value is C01's business, not C03's)
		cb, cerr := hessian.ToBytes(val, copyNames(nm))
		if cerr != nil {
			res.Skipped++
			continue
		}
		if d, err := hessian.ToObject(cb, tm); err != nil || zoo.Equiv(val, d, zoo.EquivOpts{}) != "" {
			res.Skipped++
			continue
		}
		a := safeDenote(val, nm)
		if a == nil {
			continue
		}
		tryOne := func(ch hspec.Chooser, label string) {
			rec := &hspec.Recorder{C: ch}
			b, used := hspec.Encode(a, rec, opts)
			res.Evals++
			if string(b) != string(cb) {
				res.NT = append(res.NT, Hash64(string(b)))
			}
			feats := append([]string{}, vfeats...)
			for f := range used {
				feats = append(feats, "choice:"+f)
				res.Count("choice:"+f, 1)
			}
			c2 := cc
			c2.Vec = rec.Vec
			out, err, pi, entry := decodeBoth(b, tm)
			viol := func(class, detail string) {
				env.Viol(&res, Violation{Class: class, Features: feats, Detail: fmt.Sprintf("%s rendering %s of %s: %s (library's own rendering: %s)", label, hexClip(b), describe(val), detail, hexClip(cb)), Case: c2, Input: describe(val)})
			}
			switch {
			case pi != nil:
				viol("panic", entry+": "+pi.Class+": "+pi.Msg)
			case err != nil:
				viol("dec-error", entry+": "+err.Error())
			default:
				if m := zoo.Equiv(val, out, zoo.EquivOpts{}); m != "" {
					viol("mismatch", m)
				} else if m := zoo.SameSharing(val, out); m != "" {
					viol("sharing", m)
				} else if len(res.Samples) == 0 && len(used) > 1 {
					res.Sample(map[string]interface{}{"value": describe(val), "rendering": hexClip(b), "canonical": hexClip(cb), "choices": feats})
				}
			}
		}
		if c.Sub >= 0 && len(c.Vec) > 0 {
			tryOne(&hspec.ReplayChooser{Vec: c.Vec}, "replayed")
			continue
		}
		// enumerate the whole space when small
		en := hspec.NewEnum()
		n := 0
		exhausted := false
		for n < 4096 {
			tryOne(en, "enumerated")
			n++
			if !en.Advance() {
				exhausted = true
				break
			}
		}
		if exhausted {
			res.Count("values_with_choice_space_enumerated", 1)
		} else {
			res.Count("values_with_choice_space_sampled", 1)
			r := rand.New(rand.NewSource(Mix(c.Seed, 9000+j)))
			for k := 0; k < c.M; k++ {
				tryOne(&hspec.RandChooser{R: r, P: 0.2 + 0.6*r.Float64()}, "sampled")
			}
			tryOne(hspec.MaxChooser{}, "all-maximal")
		}
		res.Max("renderings_of_one_value", int64(n))
	}
	return res
}

func c03scalars(c Case, env *Env, res *Result, opts hspec.EncOpts) {
	var vals []*hspec.Value
	for _, x := range zoo.I32Table {
		vals = append(vals, hspec.Int(x))
	}
	for _, x := range zoo.I64Table {
		vals = append(vals, hspec.Long(x))
	}
	for _, f := range zoo.F64Table {
		vals = append(vals, hspec.Double(f))
	}
	for _, ms := range []int64{0, 60000, 1500000000123, 1500000060000, -60000, -1, 253402300799999} {
		vals = append(vals, hspec.Date(ms))
	}
	for _, s := range []string{"", "a", "héllo", "ab😀cd", "0123456789abcdefghijklmnopqrstuvwxyz"} {
		vals = append(vals, hspec.String(s))
	}
	vals = append(vals, hspec.Binary([]byte{}), hspec.Binary([]byte{1, 2, 3, 4}), hspec.Bool(true), hspec.Bool(false), hspec.Null())
	for vi, a := range vals {
		var want interface{}
		switch a.Kind {
		case hspec.KInt:
			want = int32(a.I)
		case hspec.KLong:
			want = a.I
		case hspec.KDouble:
			want = a.F
		case hspec.KDate:
			want = time.Unix(a.I/1000, (a.I%1000)*1e6)
			if a.I%1000 < 0 {
				want = time.Unix(a.I/1000-1, (a.I%1000+1000)*1e6)
			}
		case hspec.KString:
			want = a.S
		case hspec.KBinary:
			want = a.Bin
		case hspec.KBool:
			want = a.B
		}
		en := hspec.NewEnum()
		for n := 0; n < 4096; n++ {
			rec := &hspec.Recorder{C: en}
			b, used := hspec.Encode(a, rec, opts)
			res.Evals++
			res.NT = append(res.NT, Hash64(string(b)))
			feats := []string{"scalar=" + a.Kind.String()}
			for f := range used {
				feats = append(feats, "choice:"+f)
				res.Count("choice:"+f, 1)
			}
			cc := c
			cc.Sub = vi
			cc.Vec = rec.Vec
			out, err, pi, entry := decodeBoth(b, nil)
			viol := func(class, detail string) {
				env.Viol(res, Violation{Class: class, Features: feats, Detail: fmt.Sprintf("rendering %s of %s: %s", hexClip(b), hspec.ShortString(a), detail), Case: cc})
			}
			switch {
			case pi != nil:
				viol("panic", entry+": "+pi.Msg)
			case err != nil:
				viol("dec-error", entry+": "+err.Error())
			default:
				if m := zoo.Equiv(want, out, zoo.EquivOpts{}); m != "" {
					viol("mismatch", m)
				}
			}
			if !en.Advance() {
				break
			}
		}
	}
	res.Sample(map[string]interface{}{"kind": "every rendering of scalar boundary values", "values": len(vals)})
}

type exCar struct {
	Color string
	Model string
}
type exColor struct{ Name string }
type exList struct {
	Head int32
	Tail *exList
}

func c03examples(c Case, env *Env, res *Result) {
	tm := map[string]reflect.Type{
		"[int": reflect.TypeOf([]int32{}), "example.Car": reflect.TypeOf(exCar{}), "example.Color": reflect.TypeOf(exColor{}),
		"LinkedList": reflect.TypeOf(exList{}), "[string": reflect.TypeOf([]string{}),
	}
	type ex struct {
		name  string
		wire  string
		want  interface{}
		feats []string
	}
	cyc := &exList{Head: 1}
	cyc.Tail = cyc
	tm["Shr"], tm["Inner"] = reflect.TypeOf(zoo.Shr{}), reflect.TypeOf(zoo.Inner{})
	tm["SlStr"], tm["SlInt64"] = reflect.TypeOf(zoo.SlStr{}), reflect.TypeOf(zoo.SlInt64{})
	s12 := []int32{1, 2}
	shr12 := &zoo.Shr{S1: s12, S2: s12}
	pp := []*zoo.Inner{{A: 5, S: "i"}, {A: 6, S: "j"}}
	shrP := &zoo.Shr{P1: pp, P2: pp}
	exs := []ex{
		{"untyped variable-length list", "x57 x90 x91 Z", []interface{}{int32(0), int32(1)}, []string{"choice:list.x57"}},
		{"typed fixed list V", "V x04 [int x92 x90 x91", []int32{0, 1}, []string{"choice:list.V"}},
		{"typed fixed list x72", "x72 x04 [int x90 x91", []int32{0, 1}, nil},
		{"typed variable list x55", "x55 x04 [int x90 x91 Z", []int32{0, 1}, []string{"choice:list.x55"}},
		{"untyped fixed x58", "x58 x92 x90 x91", []interface{}{int32(0), int32(1)}, nil},
		{"untyped fixed x7a", "x7a x90 x91", []interface{}{int32(0), int32(1)}, nil},
		{"string chunks R/S", "R x00 x01 a S x00 x05 hello", "ahello", []string{"choice:chunk.grow", "choice:chunk.split"}},
		{"string chunks x52 + short", "x52 x00 x07 'hello,' x20 x05 world", "hello, world", []string{"choice:chunk.split"}},
		{"binary x41 chunk", "x41 x00 x01 x09 x21 x08", []byte{9, 8}, []string{"choice:bin.nonfinal"}},
		{"binary x34", "x34 x02 x07 x08", []byte{7, 8}, []string{"choice:bin.x34"}},
		{"binary B", "B x00 x02 x01 x02", []byte{1, 2}, []string{"choice:bin.B"}},
		{"sparse array map", "H x91 x03 fee xa0 x03 fie xc9 x00 x03 foe Z", map[interface{}]interface{}{int32(1): "fee", int32(16): "fie", int32(256): "foe"}, nil},
		{"object long form", "C x0b example.Car x92 x05 color x05 model O x90 x03 red x08 corvette", &exCar{"red", "corvette"}, []string{"choice:obj.O"}},
		{"object short form", "C x0b example.Car x92 x05 color x05 model x60 x05 green x05 civic", &exCar{"green", "civic"}, nil},
		{"circular list", "C x0a LinkedList x92 x04 head x04 tail x60 x91 x51 x90", cyc, nil},
		{"type reference", "x58 x92 x72 x04 [int x90 x91 x73 x90 x92 x93 x94", []interface{}{[]int32{0, 1}, []int32{2, 3, 4}}, []string{"choice:type.index"}},
		{"date ms", "x4a x00 x00 x00 xd0 x4b x92 x84 xb8", time.Unix(894621091, 0), nil},
		{"date minutes", "x4b x00 xe3 x83 x8f", time.Unix(14910351*60, 0), []string{"choice:date.x4b"}},
		{"double x5d", "x5d x80", float64(-128), nil},
		{"double x5e", "x5e x7f xff", float64(32767), nil},
		{"double x5f float", "x5f x41 x44 x00 x00", float64(12.25), nil},
		{"long x59", "x59 x80 x00 x00 x00", int64(-2147483648), nil},
		{"int I", "I x00 x00 x01 x2c", int32(300), nil},
		{"null", "N", nil, nil},
		{"untyped fixed-length list in a typed slice field, then a reference to it from a second field", "C x03 Shr x98 x02 s1 x02 s2 x02 m1 x02 m2 x02 p1 x02 p2 x02 pS x01 x x60 x7a x91 x92 Q x91 N N N N N N", shr12, nil},
		{"untyped fixed-length list (x58) of objects in a typed slice field, then references from a field and an untyped position", "C x03 Shr x98 x02 s1 x02 s2 x02 m1 x02 m2 x02 p1 x02 p2 x02 pS x01 x x57 x60 N N N N x58 x92 C x05 Inner x92 x01 a x01 s x61 x95 x01 i x61 x96 x01 j Q x92 N N Q x92 Z", []interface{}{shrP, shrP.P1}, nil},
		{"class definition in front of a string field value", "C x0b example.Car x92 x05 color x05 model x60 C x0d example.Color x91 x04 name x03 red x05 civic", &exCar{"red", "civic"}, []string{"choice:def.float"}},
		{"untyped variable-length list with a null BEHIND a non-null element in a pointer-slice field", "C x03 Shr x98 x02 s1 x02 s2 x02 m1 x02 m2 x02 p1 x02 p2 x02 pS x01 x x60 N N N N x57 C x05 Inner x92 x01 a x01 s x61 x95 x01 i N x61 x96 x01 j N Z N N N", &zoo.Shr{P1: []*zoo.Inner{{A: 5, S: "i"}, nil, {A: 6, S: "j"}, nil}}, nil},
		{"untyped fixed-length list (x7c) with nulls between ints and between strings in typed slice fields", "C x05 SlStr x91 x01 v x60 x7d x01 x N x01 y x00 N", &zoo.SlStr{V: []string{"x", "", "y", "", ""}}, nil},
		{"untyped list (x58) of longs and ints into an int64 slice field", "C x07 SlInt64 x91 x01 v x60 x58 x93 xe1 x91 L x00 x00 x01 x00 x00 x00 x00 x00", &zoo.SlInt64{V: []int64{1, 1, 1 << 40}}, nil},
		{"one final string chunk of 40000 characters (lengths are unsigned 16-bit)", "S x9c x40 " + strings.Repeat("a", 40000), strings.Repeat("a", 40000), nil},
		{"a non-final string chunk of 65535 characters and a final one of 33000", "R xff xff " + strings.Repeat("b", 65535) + " S x80 xe8 " + strings.Repeat("c", 33000), strings.Repeat("b", 65535) + strings.Repeat("c", 33000), nil},
		{"one final binary chunk of 40000 octets", "B x9c x40 " + strings.Repeat("d", 40000), bytes.Repeat([]byte("d"), 40000), nil},
		{"class definition that lists the fields in another order than the Go struct declares them", "C x05 Inner x92 x01 s x01 a x60 x01 q x95", &zoo.Inner{A: 5, S: "q"}, nil},
		{"class definition with the fields of an eight-field struct in reverse order", "C x03 Shr x98 x01 x x02 pS x02 p2 x02 p1 x02 m2 x02 m1 x02 s2 x02 s1 x60 N N N N N N x7a x91 x92 x7a x91 x92", &zoo.Shr{S1: []int32{1, 2}, S2: []int32{1, 2}}, nil},
		{"class definition in front of an int field value", "C x0a LinkedList x92 x04 head x04 tail x60 C x0d example.Color x91 x04 name x91 N", &exList{Head: 1}, []string{"choice:def.float"}},
	}
	for i, e := range exs {
		if c.S != "" {
			if c.S != e.name {
				continue
			}
		} else if c.Sub >= 0 && c.Sub != i {
			continue
		}
		skip := false
		for _, f := range e.feats {
			if env.Avoid("C03", f) && !env.Replay {
				skip = true
			}
		}
		if skip {
			res.Skipped++
			continue
		}
		b := hspecHx(e.wire)
		res.Evals++
		res.NT = append(res.NT, Hash64(string(b)))
		cc := c
		cc.Sub = i
		feats := append([]string{"published-example"}, e.feats...)
		out, err, pi, entry := decodeBoth(b, tm)
		viol := func(class, detail string) {
			env.Viol(res, Violation{Class: class, Features: feats, Detail: fmt.Sprintf("published example %q (%x): %s", e.name, b, detail), Case: cc})
		}
		switch {
		case pi != nil:
			viol("panic", entry+": "+pi.Msg)
		case err != nil:
			viol("dec-error", entry+": "+err.Error())
		default:
			if m := zoo.Equiv(e.want, out, zoo.EquivOpts{}); m != "" {
				viol("mismatch", m)
			} else if m := zoo.SameSharing(e.want, out); m != "" {
				viol("sharing", m)
			}
		}
	}
	res.Sample(map[string]interface{}{"kind": "published examples decoded verbatim", "count": len(exs), "example": "x57 x90 x91 Z -> []interface{}{0,1}"})
}
