package work

import (
	"fmt"
	"math/rand"
	"reflect"

	"verif/zoo"
)

// avoidable features of the zoo generator; a feature is switched off in the
// main stream of a property iff an open known finding of that property lists it.
var zooAvoidable = []string{
	"str.empty@elem", "str.empty@mapkey", "str.empty@mapval",
	"bin.empty@elem", "bin.empty@mapval",
	"ptr.nil@elem", "ptr.nil@mapval",
	"time.zero@elem", "time.zero@mapval", "time.zero@field",
	"time.wholesecond", "double.integral",
	"list.len256-263", "list.empty@elem", "list.empty@mapval", "map.empty@elem", "map.empty@mapval",
	"iface.struct", "iface.time", "iface.nil@elem", "iface.nil@mapval", "iface.nil@mapkey",
	"shared-ptr",
}

func zooCfg(env *Env, prop string) zoo.Cfg {
	cfg := zoo.DefaultCfg()
	for _, f := range zooAvoidable {
		if env.Avoid(prop, f) {
			cfg.Avoid[f] = true
		}
	}
	return cfg
}

// typeAvoided: a whole zoo type (or tag) is listed by an open finding.
func typeAvoided(env *Env, prop string, e zoo.Entry) bool {
	if env.Avoid(prop, "type="+e.Name) {
		return true
	}
	for _, t := range e.Tags {
		if env.Avoid(prop, "tag="+t) {
			return true
		}
	}
	return false
}

// zooValue builds the sub-case value of an entry from a sub-seed.
// Struct entries alternate between T and *T at top level.
func zooValue(e zoo.Entry, seed int64, cfg zoo.Cfg, share float64) (interface{}, []string) {
	g := zoo.NewGen(seed, cfg)
	g.Share = share
	v := g.Value(e.Type)
	feats := append(g.Features(), "type="+e.Name)
	for _, t := range e.Tags {
		feats = append(feats, "tag="+t)
	}
	if !e.Top && e.Type.Kind() == reflect.Struct {
		if seed%2 == 0 {
			p := reflect.New(e.Type)
			p.Elem().Set(v)
			return p.Interface(), append(feats, "top=ptr")
		}
		return v.Interface(), append(feats, "top=value")
	}
	return v.Interface(), feats
}

// zooCases: the case list shared by C01/C02 (and re-used by others).
func zooCases(tier string, seed int64) []Case {
	var cs []Case
	add := func(c Case) { c.Sub = -1; cs = append(cs, c) }
	per := 40
	if tier == "thorough" {
		per = 8000
	}
	for i, e := range zoo.Types {
		add(Case{Kind: "zero", Type: e.Name})
		chunk := per
		if chunk > 250 {
			chunk = 250
		}
		for off := 0; off < per; off += chunk {
			add(Case{Kind: "rand", Type: e.Name, Seed: Mix(seed, i*1000+off), Count: chunk})
		}
	}
	// container lengths: every slice-bearing struct type at table lengths (quick) / every length 0..600 (thorough)
	for i, e := range zoo.Types {
		if !e.Has("slice") {
			continue
		}
		if tier == "quick" {
			add(Case{Kind: "len", Type: e.Name, Seed: Mix(seed, 50000+i), Vec: zoo.LenTable})
		} else {
			for a := 0; a <= 600; a += 50 {
				var v []int
				for l := a; l < a+50 && l <= 600; l++ {
					v = append(v, l)
				}
				add(Case{Kind: "len", Type: e.Name, Seed: Mix(seed, 50000+i), Vec: v})
			}
		}
	}
	// class counts 1..24 through Bag
	nb := 2
	if tier == "thorough" {
		nb = 200
	}
	for k := 0; k < nb; k++ {
		add(Case{Kind: "bag", Seed: Mix(seed, 70000+k), Count: 24 * 4})
	}
	// more classes on one stream than one octet can number (instances of class #255, #256, #257, #271, #272, #511, #512 ...)
	many := []int{17, 255, 256, 257, 258, 272, 273, 300, 512, 513, 529}
	if tier == "thorough" {
		many = nil
		for n := 240; n <= 530; n++ {
			many = append(many, n)
		}
	}
	for off := 0; off < len(many); off += 16 {
		end := off + 16
		if end > len(many) {
			end = len(many)
		}
		add(Case{Kind: "many", Seed: Mix(seed, 80000+off), Vec: many[off:end]})
	}
	return cs
}

// zooSub produces the value of sub-case j of a zoo case ("" entry name = skip).
func zooSub(c Case, j int, env *Env, prop string) (val interface{}, feats []string, skip bool) {
	cfg := zooCfg(env, prop)
	if env.Replay {
		cfg = zoo.DefaultCfg() // a replayed case is regenerated exactly as recorded (Opt carries the avoid set)
		for _, o := range c.Opt {
			if len(o) > 6 && o[:6] == "avoid:" {
				cfg.Avoid[o[6:]] = true
			}
		}
	}
	switch c.Kind {
	case "lit":
		f, ok := literals[c.S]
		if !ok {
			return nil, nil, true
		}
		val, feats = f()
		return val, feats, false
	case "zero":
		e, _ := zoo.Lookup(c.Type)
		if typeAvoided(env, prop, e) && !env.Replay {
			return nil, nil, true
		}
		feats = []string{"type=" + e.Name, "zero-value"}
		for _, t := range e.Tags {
			feats = append(feats, "tag="+t)
		}
		z := reflect.New(e.Type)
		if j == 0 || e.Top || e.Type.Kind() != reflect.Struct {
			return z.Elem().Interface(), feats, false
		}
		return z.Interface(), append(feats, "top=ptr"), false
	case "rand":
		e, _ := zoo.Lookup(c.Type)
		if typeAvoided(env, prop, e) && !env.Replay {
			return nil, nil, true
		}
		share := 0.0
		if e.Has("recursive") {
			share = 0.3
		}
		if cfg.Avoid["shared-ptr"] {
			share = 0
		}
		val, feats = zooValue(e, Mix(c.Seed, j), cfg, share)
		return val, feats, false
	case "len":
		e, _ := zoo.Lookup(c.Type)
		if typeAvoided(env, prop, e) && !env.Replay {
			return nil, nil, true
		}
		n := c.Vec[j]
		if n >= 256 && n <= 263 && cfg.Avoid["list.len256-263"] {
			return nil, nil, true
		}
		cfg.ForceLen = n
		cfg.MaxLen = 3
		val, feats = zooValue(e, Mix(c.Seed, n), cfg, 0)
		return val, append(feats, fmt.Sprintf("len=%d", n)), false
	case "many":
		// n+1 classes in one message (the holder and n of its 530 pointer fields, chosen at random):
		// which Go type gets class number 255, 256, 257, 272, 512 ... varies with the seed
		n := c.Vec[j]
		r := rand.New(rand.NewSource(Mix(c.Seed, n)))
		h := &zoo.ManyHolder{Tail: int32(n)}
		for i, p := range r.Perm(zoo.ManyCount)[:n] {
			zoo.SetMany(h, p, int32(i))
		}
		feats = []string{"type=ManyHolder", "tag=classes", "many-classes", fmt.Sprintf("classes=%d", n+1)}
		return h, feats, false
	case "bag":
		// j encodes the number of classes (1..24) and a variant
		k := j%24 + 1
		r := rand.New(rand.NewSource(Mix(c.Seed, j)))
		b := &zoo.Bag{Tail: int32(r.Intn(1000))}
		bv := reflect.ValueOf(b).Elem()
		perm := r.Perm(24)
		chosen := map[int]bool{}
		for _, p := range perm[:k] {
			chosen[p] = true
		}
		for p := 0; p < 24; p++ {
			if chosen[p] {
				f := bv.Field(p)
				n := reflect.New(f.Type().Elem())
				n.Elem().Field(0).SetInt(int64(r.Intn(100000)))
				f.Set(n)
			}
		}
		feats = []string{"type=Bag", "tag=classes", fmt.Sprintf("classes=%d", k+1)}
		if r.Intn(2) == 0 {
			b.L03 = []zoo.K03{{A: 1}, {A: int32(r.Intn(50))}}
			feats = append(feats, "class-instance@elem")
		}
		if r.Intn(2) == 0 {
			b.L17 = []zoo.K17{{A: 7}}
			feats = append(feats, "class-instance@elem")
		}
		if r.Intn(2) == 0 {
			b.L20 = []*zoo.K20{{A: 9}, {A: 10}}
			feats = append(feats, "class-instance@elem")
		}
		if typeAvoided(env, prop, zoo.Entry{Name: "Bag", Tags: []string{"classes"}}) && !env.Replay {
			return nil, nil, true
		}
		return b, feats, false
	}
	return nil, nil, true
}

func zooCount(c Case) int {
	switch c.Kind {
	case "lit":
		if c.N > 1 {
			return c.N // a witness that fails only on some runs is attempted N times
		}
		return 1
	case "zero":
		return 2
	case "len", "many":
		return len(c.Vec)
	}
	return c.Count
}

// avoidOpts records the avoid set in force, so a replay regenerates the same value.
func avoidOpts(env *Env, prop string) []string {
	var out []string
	for _, f := range zooAvoidable {
		if env.Avoid(prop, f) {
			out = append(out, "avoid:"+f)
		}
	}
	return out
}
