package work

import (
	"fmt"
	"math/rand"
	"reflect"
	"strings"

	hessian "github.com/vogo/gohessian"

	"verif/hspec"
	"verif/mon"
	"verif/zoo"
)

// C05 — objects bind fields by name; every instance uses the class definition it names.
type c05 struct{}

func init() { Register(c05{}) }

func (c05) ID() string    { return "C05" }
func (c05) Level() string { return "exploration" }
func (c05) Rule() string {
	return "wire class definitions derived from a Go struct type by permuting (all 120 permutations of 5 fields), dropping (every subset) and adding fields (0..3 extra fields at every insertion point with every value kind: int, string, chunked string, list, map, object, ref, null, double, binary), field names with lower- or upper-case first letter, placed at table position p in 0..40 (and at 41..1025 around the one- and two-octet wrap points) reached four ways (earlier values on the same stream, earlier elements of an enclosing list, hoisted unused definitions), short form for p < 16 and long form 'O' for every p. Streams are built by the reference encoder. Oracle: expected Go value computed by the harness from (type, definition, values): wire value for every Go field named in the definition, zero otherwise; zoo.Equiv. Non-trivial = definition differs from the Go declaration order or p > 0; distinct by stream hash."
}
func (c05) ProcOpts() Proc { return Proc{RlimitAS: 4 << 30} }

type F5 struct {
	Alpha int32
	Beta  string
	Gamma bool
	Delta float64
	Eps   int64
}

type F3c struct {
	Name string
	List []int32
	In   *zoo.Inner
	Mp   map[string]int32
}

// FCase: field names that differ only in the case of letters after the first one
type FCase struct {
	URL    string
	Url    string
	UserId string
	Userid int32
	Eps    int64
}

// FRef: two pointer fields that share one object; used with an unknown CONTAINER field in front
type FRef struct {
	Owner  *zoo.Inner
	Editor *zoo.Inner
	N      int32
}

// FLong: field names longer than 64 characters (whatever a decoder clips for messages must not reach the lookup)
type FLong struct {
	ThisFieldNameIsLongerThanSixtyFourCharactersWhichIsAnArbitraryLimit0001 int32
	ThisFieldNameIsLongerThanSixtyFourCharactersWhichIsAnArbitraryLimit0002 string
	Beta                                                                    string
	ThisFieldNameIsLongerThanSixtyFourCharactersWhichIsAnArbitraryLimit0003 int64
}

// F12: a wide struct (a decoder might index the fields of wide structs differently)
type F12 struct {
	A01 int32
	B02 string
	C03 bool
	D04 float64
	E05 int64
	F06 int32
	G07 string
	H08 int64
	I09 bool
	J10 float64
	K11 string
	L12 int32
}

// FEmb: an embedded struct; its promoted field names (a, s) are NOT fields of FEmb on the wire, so a
// wire field of that name has no Go counterpart and must be skipped
type FEmb struct {
	zoo.Inner
	N    int32
	Tail string
}

// FEmpty: a Go struct without fields; every wire field of its class is unknown and must be skipped
type FEmpty struct{}

type Filler struct{ A int32 }

func (c05) Cases(tier string, seed int64, kf *KnownFindings) []Case {
	var cs []Case
	add := func(c Case) { c.Sub = -1; cs = append(cs, c) }
	add(Case{Kind: "perm", Seed: Mix(seed, 1), Count: 120})
	add(Case{Kind: "drop", Seed: Mix(seed, 2), Count: 32})
	add(Case{Kind: "extra1", Seed: Mix(seed, 3), Count: 6 * len(extraKinds)})
	add(Case{Kind: "pos", Seed: Mix(seed, 4), Count: 41 * 4 * 2})
	add(Case{Kind: "bigpos", Seed: Mix(seed, 7), Count: len(c05bigPos) * 4})
	add(Case{Kind: "skipref", Seed: Mix(seed, 5), Count: 30})
	add(Case{Kind: "dupdef", Seed: Mix(seed, 6), Count: 12})
	add(Case{Kind: "twonames", Seed: Mix(seed, 8), Count: 8})
	add(Case{Kind: "dupnames", Seed: Mix(seed, 9), Count: 8})
	n, per := 8, 100
	if tier == "thorough" {
		n, per = 128, 1500
	}
	for i := 0; i < n; i++ {
		add(Case{Kind: "rand", Seed: Mix(seed, 10+i), Count: per})
	}
	return cs
}

var c05bigPos = []int{41, 64, 100, 254, 255, 256, 257, 271, 272, 511, 512, 513, 1023, 1024, 1025}

var extraKinds = []string{"int", "string", "chunked-string", "list", "map", "object", "ref", "null", "double", "binary", "long", "date", "typed-list", "bool", "double2", "double3", "double9", "double1", "long2", "long3", "int5", "utf8-string", "utf8-medium", "long5", "long5neg", "unknown-class-object", "unknown-type-list", "unknown-type-map", "unknown-class-in-list", "nested-skip"}

type c05spec struct {
	goType   reflect.Type
	perm     []int  // order of Go fields on the wire (indices into the Go field list); dropped fields absent
	upper    []bool // wire name keeps the upper-case first letter
	extras   []c05extra
	p        int    // table position of the class
	how      string // stream | list | hoist
	long     bool   // 'O' long form
	valsSeed int64
}

type c05extra struct {
	at   int // insertion index into the wire field list
	kind string
	name string // wire name ("" = unknownN); a case-variant of a real field beyond the first letter stays unknown
}

func permOf(n int, k int) []int {
	// k-th permutation of 0..n-1 (factorial number system)
	idx := make([]int, n)
	for i := range idx {
		idx[i] = i
	}
	out := make([]int, 0, n)
	f := 1
	for i := 2; i < n; i++ {
		f *= i
	}
	for i := n - 1; i >= 0; i-- {
		d := 0
		if f > 0 {
			d = k / f
			k %= f
		}
		out = append(out, idx[d])
		idx = append(idx[:d], idx[d+1:]...)
		if i > 0 {
			f /= i
		}
	}
	return out
}

func lowerFirstC(s string) string {
	if s != "" && s[0] >= 'A' && s[0] <= 'Z' {
		return string(s[0]+32) + s[1:]
	}
	return s
}

// build renders the spec: returns the stream, how to read it, and the expected Go value.
func (sp *c05spec) build() (stream []byte, reads int, pickLast bool, expect interface{}, typMap map[string]reflect.Type, desc string) {
	r := rand.New(rand.NewSource(sp.valsSeed))
	t := sp.goType
	exp := reflect.New(t)
	target := "test.Target." + t.Name()
	typMap = map[string]reflect.Type{target: t, "test.Inner": reflect.TypeOf(zoo.Inner{})}
	// wire fields
	type wf struct {
		name string
		val  *hspec.Value
	}
	var fields []wf
	shared := hspec.Object("test.Inner", []string{"a", "s"}, hspec.Int(9), hspec.String("shared"))
	_ = shared
	for k, gi := range sp.perm {
		f := t.Field(gi)
		name := lowerFirstC(f.Name)
		if k < len(sp.upper) && sp.upper[k] {
			name = f.Name
		}
		var av *hspec.Value
		fv := exp.Elem().Field(gi)
		switch f.Type.Kind() {
		case reflect.Int32:
			x := int32(r.Uint32()) >> uint(r.Intn(32))
			fv.SetInt(int64(x))
			av = hspec.Int(x)
		case reflect.Int64:
			x := int64(r.Uint64()) >> uint(r.Intn(64))
			fv.SetInt(x)
			av = hspec.Long(x)
		case reflect.String:
			s := fmt.Sprintf("v%d", r.Intn(100000))
			fv.SetString(s)
			av = hspec.String(s)
		case reflect.Bool:
			b := r.Intn(2) == 0
			fv.SetBool(b)
			av = hspec.Bool(b)
		case reflect.Float64:
			x := float64(r.Intn(2000)) / 8
			fv.SetFloat(x)
			av = hspec.Double(x)
		case reflect.Slice:
			n := r.Intn(4)
			l := hspec.List("[int32")
			l.Elems = []*hspec.Value{}
			sl := make([]int32, 0, n)
			for i := 0; i < n; i++ {
				x := int32(r.Intn(1000))
				sl = append(sl, x)
				l.Elems = append(l.Elems, hspec.Int(x))
			}
			fv.Set(reflect.ValueOf(sl))
			av = l
			typMap["[int32"] = reflect.TypeOf([]int32{})
		case reflect.Struct:
			in := zoo.Inner{A: int32(r.Intn(100)), S: "emb"}
			fv.Set(reflect.ValueOf(in))
			av = hspec.Object("test.Inner", []string{"a", "s"}, hspec.Int(in.A), hspec.String(in.S))
		case reflect.Ptr:
			in := &zoo.Inner{A: int32(r.Intn(100)), S: "in"}
			fv.Set(reflect.ValueOf(in))
			av = hspec.Object("test.Inner", []string{"a", "s"}, hspec.Int(in.A), hspec.String(in.S))
		case reflect.Map:
			m := map[string]int32{"k": int32(r.Intn(50))}
			fv.Set(reflect.ValueOf(m))
			av = hspec.Map("", hspec.String("k"), hspec.Int(m["k"]))
		}
		fields = append(fields, wf{name, av})
	}
	// extras (inserted from the back so indices stay valid)
	var refTarget *hspec.Value
	for xi := len(sp.extras) - 1; xi >= 0; xi-- {
		ex := sp.extras[xi]
		var av *hspec.Value
		switch ex.kind {
		case "int":
			av = hspec.Int(int32(r.Intn(1 << 20)))
		case "long":
			av = hspec.Long(1 << 40)
		case "double":
			av = hspec.Double(3.25)
		case "double1":
			av = hspec.Double(1)
		case "double2":
			av = hspec.Double(-100)
		case "double3":
			av = hspec.Double(30000)
		case "double9":
			av = hspec.Double(0.1)
		case "long2":
			av = hspec.Long(2000)
		case "long3":
			av = hspec.Long(-200000)
		case "int5":
			av = hspec.Int(1 << 30)
		case "bool":
			av = hspec.Bool(true)
		case "date":
			av = hspec.Date(1500000000123)
		case "unknown-class-object":
			// the receiver has neither the field nor the class of its value (a newer sender)
			av = hspec.Object("newer.Added", []string{"x", "y"}, hspec.Int(5), hspec.List("", hspec.String("in")))
		case "nested-skip":
			// inside the skipped value: an instance of a KNOWN class that itself carries an unknown field,
			// and only then values of unknown class / type (the skip is entered twice, one inside the other)
			known := hspec.Object("test.Inner", []string{"a", "zz", "s"}, hspec.Int(1), hspec.List("", hspec.Int(9)), hspec.String("k"))
			tm := hspec.Map("newer.Props", hspec.String("k"), hspec.Int(1))
			tm.MapTyped = true
			av = hspec.List("", known, hspec.Object("newer.Added", []string{"x"}, hspec.Int(6)), hspec.List("[newer.Added", hspec.Int(1)), tm, known)
		case "unknown-class-in-list":
			o := hspec.Object("newer.Added", []string{"x"}, hspec.Int(6))
			av = hspec.List("", o, hspec.Int(1), o)
		case "unknown-type-list":
			av = hspec.List("[newer.Added", hspec.Int(1), hspec.Int(2))
		case "unknown-type-map":
			av = hspec.Map("newer.Props", hspec.String("k"), hspec.Int(1))
			av.MapTyped = true
		case "utf8-string":
			av = hspec.String("é世😀 x")
		case "utf8-medium":
			av = hspec.String(strings.Repeat("ß", 20) + strings.Repeat("世", 20) + "😀")
		case "long5":
			av = hspec.Long(1 << 20) // x59 + 4 octets
		case "long5neg":
			av = hspec.Long(-(1 << 28))
		case "string":
			av = hspec.String("extra")
		case "chunked-string":
			av = hspec.String(strings.Repeat("c", 66000))
		case "binary":
			av = hspec.Binary([]byte{1, 2, 3, 4})
		case "list":
			av = hspec.List("", hspec.Int(1), hspec.String("two"), hspec.List("", hspec.Int(3)))
		case "typed-list":
			av = hspec.List("[int32", hspec.Int(1), hspec.Int(2))
			typMap["[int32"] = reflect.TypeOf([]int32{})
		case "map":
			av = hspec.Map("", hspec.String("k"), hspec.Int(1), hspec.Int(2), hspec.String("v"))
		case "object":
			av = hspec.Object("test.Inner", []string{"a", "s"}, hspec.Int(77), hspec.String("extra-object"))
		case "ref":
			if refTarget == nil {
				refTarget = hspec.Object("test.Inner", []string{"a", "s"}, hspec.Int(1), hspec.String("early"))
			}
			av = &hspec.Value{Kind: hspec.KRef, Ref: refTarget, Ord: -1}
		default:
			av = hspec.Null()
		}
		at := ex.at
		if at > len(fields) {
			at = len(fields)
		}
		xname := ex.name
		if xname == "" {
			xname = fmt.Sprintf("unknown%d", xi)
		}
		fields = append(fields[:at], append([]wf{{xname, av}}, fields[at:]...)...)
	}
	names := make([]string, len(fields))
	vals := make([]*hspec.Value, len(fields))
	for i, f := range fields {
		names[i], vals[i] = f.name, f.val
	}
	targetObj := hspec.Object(target, names, vals...)
	ch := hspec.FuncChooser(func(point string, n int) int {
		if point == "obj" && sp.long {
			return n - 1
		}
		return 0
	})
	enc := hspec.NewEncoder(ch, hspec.EncOpts{})
	mkFiller := func(i int) *hspec.Value {
		cls := fmt.Sprintf("test.Filler%02d", i)
		typMap[cls] = reflect.TypeOf(Filler{})
		return hspec.Object(cls, []string{"a"}, hspec.Int(int32(i)))
	}
	desc = fmt.Sprintf("fields=%v p=%d via %s long=%v", names, sp.p, sp.how, sp.long)
	pre := sp.p
	if refTarget != nil {
		// the object the ref points to is sent first (it defines one more class unless Inner is known)
		enc.Value(refTarget)
		reads++
	}
	switch sp.how {
	case "stream":
		for i := 0; i < pre; i++ {
			enc.Value(mkFiller(i))
			reads++
		}
		enc.Value(targetObj)
		reads++
	case "list":
		l := hspec.List("")
		for i := 0; i < pre; i++ {
			l.Elems = append(l.Elems, mkFiller(i))
		}
		// the target is followed by a sentinel: whatever the instance leaves unread corrupts it
		l.Elems = append(l.Elems, targetObj, hspec.Int(424242))
		enc.Value(l)
		reads++
		pickLast = true
	case "hoist-reorder":
		// all definitions up front, first instances arrive in REVERSE definition order
		var fl []*hspec.Value
		for i := 0; i < pre; i++ {
			f := mkFiller(i)
			enc.Define(f)
			fl = append(fl, f)
		}
		enc.Define(targetObj)
		l := hspec.List("")
		l.Elems = append(l.Elems, targetObj)
		for i := len(fl) - 1; i >= 0; i-- {
			l.Elems = append(l.Elems, fl[i])
		}
		l.Elems = append(l.Elems, targetObj, hspec.Int(424242)) // the same instance again (a ref), then the sentinel
		enc.Value(l)
		reads++
		pickLast = true
	default: // hoist: unused definitions in front
		// ... among them one of a class the receiver does not know at all and that is never instantiated,
		// and the definitions of unknown classes that only occur inside unknown (skipped) fields
		enc.Define(hspec.Object("newer.NeverUsed", []string{"q", "r"}, hspec.Int(0), hspec.Int(0)))
		hspec.Walk(targetObj, func(n *hspec.Value) {
			if n.Kind == hspec.KObject && strings.HasPrefix(n.Type, "newer.") {
				enc.Define(n)
			}
		})
		for i := 0; i < pre; i++ {
			enc.Define(mkFiller(i))
		}
		enc.Value(targetObj)
		reads++
	}
	return enc.Out, reads, pickLast, exp.Interface(), typMap, desc
}

func (c05) Run(c Case, env *Env) Result {
	var res Result
	lo, hi := subRange(c)
	t5 := reflect.TypeOf(F5{})
	t3 := reflect.TypeOf(F3c{})
	tCase := reflect.TypeOf(FCase{})
	// one decoder and one serializer are re-used for every sub-case of the batch: each stream
	// defines "test.Target" afresh (other order, other fields), so anything a decoder remembers
	// about a class across Reset shows up as a wrong binding
	var sharedDec *hessian.Decoder
	var sharedSer hessian.Serializer
	hows := []string{"stream", "list", "hoist", "hoist-reorder"}
	tEmpty := reflect.TypeOf(FEmpty{})
	tEmb := reflect.TypeOf(FEmb{})
	tWide := reflect.TypeOf(F12{})
	tLong := reflect.TypeOf(FLong{})
	for j := lo; j < hi; j++ {
		if c.Kind == "skipref" || c.Kind == "dupdef" || c.Kind == "twonames" || c.Kind == "dupnames" {
			c05special(c, j, env, &res)
			continue
		}
		r := rand.New(rand.NewSource(Mix(c.Seed, j)))
		sp := &c05spec{goType: t5, how: "stream", valsSeed: Mix(c.Seed, 5000+j)}
		feats := []string{"kind=" + c.Kind}
		switch c.Kind {
		case "perm":
			sp.perm = permOf(5, j)
		case "drop":
			for b := 0; b < 5; b++ {
				if j&(1<<uint(b)) == 0 {
					sp.perm = append(sp.perm, b)
				}
			}
			feats = append(feats, "dropped-fields")
		case "extra1":
			sp.perm = []int{0, 1, 2, 3, 4}
			sp.extras = []c05extra{{at: j / len(extraKinds), kind: extraKinds[j%len(extraKinds)]}}
			feats = append(feats, "extra="+extraKinds[j%len(extraKinds)])
		case "bigpos":
			// class numbers beyond one octet (the statement says "any number of classes")
			sp.perm = []int{0, 1, 2, 3, 4}
			sp.p = c05bigPos[j%len(c05bigPos)]
			sp.how = []string{"stream", "list", "hoist", "hoist-reorder"}[(j/len(c05bigPos))%4]
			sp.long = true
			feats = append(feats, "how="+sp.how, "class-number>40")
		case "pos":
			sp.perm = []int{0, 1, 2, 3, 4}
			sp.p = j % 41
			sp.how = []string{"stream", "list", "hoist", "hoist-reorder"}[(j/41)%4]
			sp.long = (j/(41*4))%2 == 1 || sp.p >= 16
			feats = append(feats, "how="+sp.how)
		default:
			switch r.Intn(5) {
			case 4:
				sp.goType = tWide
				feats = append(feats, "wide-struct")
				if r.Intn(3) == 0 {
					sp.goType = tLong
					feats = append(feats, "long-field-names")
				}
			case 0:
				sp.goType = t3
			case 1:
				sp.goType = tCase
				feats = append(feats, "case-variant-fields")
			case 2:
				if r.Intn(2) == 0 {
					sp.goType = tEmpty // no Go fields at all: every wire field is an extra
					feats = append(feats, "fieldless-go-struct")
				} else {
					sp.goType = tEmb
					feats = append(feats, "embedded-struct")
				}
			}
			nf := sp.goType.NumField()
			if nf > 0 {
				sp.perm = permOf(nf, r.Intn(120)%fact(nf))
			}
			// drop a random subset
			if r.Intn(2) == 0 {
				var keep []int
				for _, gi := range sp.perm {
					if r.Intn(4) != 0 {
						keep = append(keep, gi)
					}
				}
				sp.perm = keep
				feats = append(feats, "dropped-fields")
			}
			for k := 0; k < len(sp.perm); k++ {
				sp.upper = append(sp.upper, r.Intn(4) == 0)
			}
			for k := r.Intn(4); k > 0; k-- {
				ek := extraKinds[r.Intn(len(extraKinds))]
				x := c05extra{at: r.Intn(len(sp.perm) + 1), kind: ek}
				if r.Intn(3) == 0 && sp.goType.NumField() > 0 && (ek == "string" || ek == "int" || ek == "null" || ek == "long") {
					// a name that equals a real field only when case is ignored beyond the first letter
					f := sp.goType.Field(r.Intn(sp.goType.NumField())).Name
					v := strings.ToUpper(f)
					if v == f || len(f) < 2 {
						v = strings.ToLower(f[:1]) + strings.ToUpper(f[1:])
					}
					if _, clash := sp.goType.FieldByName(v); !clash && lowerFirstC(v) != lowerFirstC(f) {
						x.name = v
						feats = append(feats, "extra-name-casefolds-onto-field")
					}
				}
				if sp.goType == tEmb && r.Intn(2) == 0 && (ek == "string" || ek == "int" || ek == "object" || ek == "long" || ek == "utf8-string") {
					x.name = []string{"a", "s", "A", "S"}[r.Intn(4)] // named like a field PROMOTED from the embedded struct
					feats = append(feats, "extra-named-like-promoted-field")
				}
				sp.extras = append(sp.extras, x)
				feats = append(feats, "extra="+ek)
			}
			// keep extras sorted by insertion index so that back-to-front insertion is stable
			for a := 1; a < len(sp.extras); a++ {
				for b := a; b > 0 && sp.extras[b].at < sp.extras[b-1].at; b-- {
					sp.extras[b], sp.extras[b-1] = sp.extras[b-1], sp.extras[b]
				}
			}
			sp.p = []int{0, 0, 1, 2, 3, 15, 16, 17, 30, 40}[r.Intn(10)]
			sp.how = hows[r.Intn(4)]
			sp.long = r.Intn(3) == 0 || sp.p >= 16
			if sp.goType == tEmpty && len(sp.extras) == 0 {
				sp.extras = []c05extra{{at: 0, kind: "string"}, {at: 0, kind: "int"}}
			}
			feats = append(feats, "how="+sp.how)
		}
		if sp.p == 2 {
			feats = append(feats, "class#2")
		}
		if sp.p >= 16 {
			feats = append(feats, "class>=16")
		}
		if sp.long {
			feats = append(feats, "long-form")
		}
		skip := false
		for _, f := range feats {
			if env.Avoid("C05", f) && !env.Replay {
				skip = true
			}
		}
		if skip {
			res.Skipped++
			continue
		}
		stream, reads, pickLast, expect, typMap, desc := sp.build()
		env.J(c.Idx, j)
		cc := c
		cc.Sub = j
		res.Evals++
		res.NT = append(res.NT, Hash64(string(stream)))
		for _, f := range feats {
			res.Count(f, 1)
		}
		res.Max("table_position", int64(sp.p))
		viol := func(class, detail string) {
			env.Viol(&res, Violation{Class: class, Features: feats, Detail: fmt.Sprintf("%s: %s; stream %s", desc, detail, hexClip(stream)), Case: cc})
		}
		// the stream itself must be well-formed under the reference decoder (harness self-check)
		rp := hspec.NewParser(stream)
		for i := 0; i < reads; i++ {
			if _, err := rp.Next(); err != nil {
				res.Inconclusive = append(res.Inconclusive, "harness built a malformed stream: "+err.Error())
				break
			}
		}
		var out interface{}
		var derr error
		pi, _ := Guard(func() {
			rd := mon.NewReader(stream)
			dec := hessian.NewDecoder(rd, typMap)
			for i := 0; i < reads; i++ {
				out, derr = dec.ReadObject()
				if derr != nil {
					return
				}
			}
			if rd.Off != len(stream) {
				derr = fmt.Errorf("framing: %d of %d bytes consumed", rd.Off, len(stream))
			}
		})
		switch {
		case pi != nil:
			viol("panic", pi.Class+": "+pi.Msg)
			continue
		case derr != nil:
			viol("dec-error", derr.Error())
			continue
		}
		if pickLast {
			l, ok := out.([]interface{})
			if !ok || len(l) < 2 {
				viol("mismatch", fmt.Sprintf("enclosing list decoded as %T", out))
				continue
			}
			if s, ok := l[len(l)-1].(int32); !ok || s != 424242 {
				viol("mismatch", fmt.Sprintf("the value after the instance was decoded as %T %v, want int32 424242", l[len(l)-1], l[len(l)-1]))
				continue
			}
			if sp.how == "hoist-reorder" {
				// fillers in between must be Filler{A: i} in reverse order
				for i := 0; i < sp.p; i++ {
					f, ok := l[1+i].(*Filler)
					if !ok || int(f.A) != sp.p-1-i {
						viol("mismatch", fmt.Sprintf("element %d of the list decoded as %T %+v, want *Filler{A:%d}", 1+i, l[1+i], l[1+i], sp.p-1-i))
						break
					}
				}
				if l[0] != l[len(l)-2] {
					viol("mismatch", "the instance and the reference to it decode to different objects")
				}
			}
			out = l[len(l)-2]
		}
		if d := zoo.Equiv(expect, out, zoo.EquivOpts{}); d != "" {
			viol("mismatch", d)
			continue
		}
		if reads == 1 {
			// the same stream through long-lived instances (one-shot calls reset them)
			if sharedDec == nil {
				// one complete type map for the whole batch, so that no Register* call is needed between streams
				all := map[string]reflect.Type{"test.Inner": reflect.TypeOf(zoo.Inner{}), "[int32": reflect.TypeOf([]int32{}),
					"test.Target.F5": t5, "test.Target.F3c": t3, "test.Target.FCase": tCase, "test.Target.FEmpty": tEmpty, "test.Target.FEmb": tEmb, "test.Target.F12": tWide, "test.Target.FLong": tLong}
				for i := 0; i <= 1030; i++ {
					all[fmt.Sprintf("test.Filler%02d", i)] = reflect.TypeOf(Filler{})
				}
				sharedDec = hessian.NewDecoder(nil, all)
				sharedSer = hessian.NewSerializer(all, nil)
			}
			for ri, name := range []string{"re-used Decoder.Decode", "re-used Serializer.ToObject"} {
				var o2 interface{}
				var e2 error
				pi, _ := Guard(func() {
					if ri == 0 {
						o2, e2 = sharedDec.Decode(stream)
					} else {
						o2, e2 = sharedSer.ToObject(stream)
					}
				})
				if pickLast && o2 != nil {
					if l, ok := o2.([]interface{}); ok && len(l) > 1 {
						o2 = l[len(l)-2]
					}
				}
				switch {
				case pi != nil:
					viol("reused:panic", name+": "+pi.Msg)
				case e2 != nil:
					viol("reused:dec-error", name+": "+e2.Error())
				default:
					if d := zoo.Equiv(expect, o2, zoo.EquivOpts{}); d != "" {
						viol("reused:mismatch", name+": "+d)
					}
				}
			}
			res.Count("streams_also_decoded_by_reused_instances", 1)
		}
		if len(res.Samples) == 0 && j > 0 {
			res.Sample(map[string]interface{}{"definition": desc, "stream": hexClip(stream), "decoded": fmt.Sprintf("%+v", out)})
		}
	}
	return res
}

func fact(n int) int {
	f := 1
	for i := 2; i <= n; i++ {
		f *= i
	}
	return f
}

// c05special: hand-built shapes that the generic builder does not produce.
//
//	skipref: an unknown wire field holding a CONTAINER, then an object field, then a field that
//	         refers back to that object (a skipped container must keep its reference number);
//	dupdef:  the same class definition sent again before each instance, so instances carry the
//	         numbers 0,1,2,... of identical definitions (incl. #2 in value position).
func c05special(c Case, j int, env *Env, res *Result) {
	inner := func(a int32, s string) *hspec.Value {
		return hspec.Object("test.Inner", []string{"a", "s"}, hspec.Int(a), hspec.String(s))
	}
	tm := map[string]reflect.Type{"test.Inner": reflect.TypeOf(zoo.Inner{}), "test.FRef": reflect.TypeOf(FRef{}), "[int32": reflect.TypeOf([]int32{})}
	cc := c
	cc.Sub = j
	res.Evals++
	var stream []byte
	var expect interface{}
	var desc string
	feats := []string{"kind=" + c.Kind}
	enc := hspec.NewEncoder(hspec.Canonical{}, hspec.EncOpts{})
	switch c.Kind {
	case "skipref":
		unk := []*hspec.Value{
			hspec.List("", hspec.Int(1), hspec.String("x")), hspec.List("[int32", hspec.Int(1)), hspec.Map("", hspec.String("k"), hspec.Int(1)),
			inner(9, "unknown-object"), hspec.List("", hspec.List("", hspec.Int(1)), hspec.Map("")), hspec.List(""),
		}[j%6]
		owner := inner(int32(j), "owner")
		names := []string{"tags", "owner", "editor", "n"}
		vals := []*hspec.Value{unk, owner, owner, hspec.Int(7)} // the second `owner` is written as a ref
		switch (j / 6) % 5 {
		case 4: // the object's FIRST occurrence lies inside the unknown field; the known fields only refer to it
			names = []string{"tags", "owner", "editor", "n"}
			vals = []*hspec.Value{hspec.List("", unk, owner, hspec.Int(1)), owner, owner, hspec.Int(7)}
		case 1: // unknown container between owner and the reference to it
			names = []string{"owner", "tags", "editor", "n"}
			vals = []*hspec.Value{owner, unk, owner, hspec.Int(7)}
		case 2: // two unknown containers
			names = []string{"tags", "more", "owner", "editor", "n"}
			vals = []*hspec.Value{unk, hspec.Map("", hspec.Int(1), hspec.Int(2)), owner, owner, hspec.Int(7)}
		case 3: // the whole thing as an element of a list after another container
			names = []string{"tags", "owner", "n", "editor"}
			vals = []*hspec.Value{unk, owner, hspec.Int(7), owner}
		}
		o := hspec.Object("test.FRef", names, vals...)
		enc.Value(o)
		stream = enc.Out
		in := &zoo.Inner{A: int32(j), S: "owner"}
		expect = &FRef{Owner: in, Editor: in, N: 7}
		desc = fmt.Sprintf("fields=%v (unknown container field %s)", names, hspec.ShortString(unk))
		feats = append(feats, "unknown-container-before-backref")
	case "dupnames":
		// a definition that lists one Go field TWICE (a shadowed Java field: the same name again, or the name in
		// both spellings): which of the two values the field keeps is not specified, but every field listed
		// AFTER them is bound as usual
		var names []string
		var vals []*hspec.Value
		switch j % 4 {
		case 0:
			names, vals = []string{"a", "a", "s"}, []*hspec.Value{hspec.Int(1), hspec.Int(2), hspec.String("x")}
		case 1:
			names, vals = []string{"s", "S", "a"}, []*hspec.Value{hspec.String("p"), hspec.String("q"), hspec.Int(7)}
		case 2:
			names, vals = []string{"a", "A", "a", "gone", "s"}, []*hspec.Value{hspec.Int(1), hspec.Int(2), hspec.Int(3), hspec.Int(9), hspec.String("x")}
		default:
			names, vals = []string{"s", "a", "s", "a"}, []*hspec.Value{hspec.String("p"), hspec.Int(1), hspec.String("q"), hspec.Int(2)}
		}
		o := hspec.Object("test.Inner", names, vals...)
		enc.Value(hspec.List("", o, hspec.String("tail")))
		stream = enc.Out
		expect = nil
		desc = fmt.Sprintf("definition %v lists a Go field more than once", names)
		feats = append(feats, "field-listed-twice")
	case "twonames":
		// two class NAMES that the receiver's type map sends to ONE Go struct, with different field lists
		// (two versions of a class): each instance is built from the definition it names
		tm["v1.Range"], tm["v2.Range"] = reflect.TypeOf(F5{}), reflect.TypeOf(F5{})
		a := hspec.Object("v1.Range", []string{"alpha", "beta"}, hspec.Int(int32(j)), hspec.String("one"))
		b := hspec.Object("v2.Range", []string{"beta", "gone", "eps", "alpha"}, hspec.String("two"), hspec.String("dropped"), hspec.Long(int64(j)<<33), hspec.Int(int32(j+1)))
		a2 := hspec.Object("v1.Range", []string{"alpha", "beta"}, hspec.Int(int32(j+2)), hspec.String("three"))
		l := hspec.List("", a, b, a2, b)
		if j%2 == 1 {
			l = hspec.List("", b, a, b, a2)
		}
		enc.Value(l)
		stream = enc.Out
		wa, wb, wa2 := &F5{Alpha: int32(j), Beta: "one"}, &F5{Alpha: int32(j + 1), Beta: "two", Eps: int64(j) << 33}, &F5{Alpha: int32(j + 2), Beta: "three"}
		expect = []interface{}{wa, wb, wa2, wb}
		if j%2 == 1 {
			expect = []interface{}{wb, wa, wb, wa2}
		}
		desc = "two class names (other field lists) decoded into one Go struct type"
		feats = append(feats, "two-class-names-one-go-type")
	case "dupdef":
		n := 3 + j%4
		l := hspec.List("")
		var want []interface{}
		for i := 0; i < n; i++ {
			x := inner(int32(100+i), fmt.Sprintf("i%d", i))
			l.Elems = append(l.Elems, x)
			want = append(want, &zoo.Inner{A: int32(100 + i), S: fmt.Sprintf("i%d", i)})
		}
		// hand-rolled: definition again before every instance
		e2 := hspec.NewEncoder(hspec.Canonical{}, hspec.EncOpts{})
		if j%2 == 0 {
			e2.Out = append(e2.Out, byte(0x78+n)) // fixed-length untyped list
		} else {
			e2.Out = append(e2.Out, 0x57) // variable-length untyped list
		}
		for i, x := range l.Elems {
			if i == 0 {
				e2.Define(x)
			} else {
				e2.DefineAgain(x)
			}
			// instance by hand so that the list header written above stays the container
			idx := i
			e2.Out = append(e2.Out, byte(0x60+idx))
			sub := hspec.NewEncoder(hspec.Canonical{}, hspec.EncOpts{})
			sub.Value(x.Elems[0])
			sub.Value(x.Elems[1])
			e2.Out = append(e2.Out, sub.Out...)
		}
		if j%2 == 1 {
			e2.Out = append(e2.Out, 'Z')
		}
		stream = e2.Out
		expect = want
		desc = fmt.Sprintf("%d instances, each preceded by an identical definition (numbers 0..%d)", n, n-1)
		feats = append(feats, "repeated-identical-definitions", "class#2")
	}
	res.NT = append(res.NT, Hash64(string(stream)))
	viol := func(class, detail string) {
		env.Viol(res, Violation{Class: class, Features: feats, Detail: fmt.Sprintf("%s: %s; stream %s", desc, detail, hexClip(stream)), Case: cc})
	}
	if _, _, err := hspec.Parse(stream); err != nil {
		res.Inconclusive = append(res.Inconclusive, "harness built a malformed stream: "+err.Error())
		return
	}
	var out interface{}
	var derr error
	pi, _ := Guard(func() { out, derr = hessian.ToObject(stream, tm) })
	switch {
	case pi != nil:
		viol("panic", pi.Msg)
	case derr != nil:
		viol("dec-error", derr.Error())
	case c.Kind == "dupnames":
		l, _ := out.([]interface{})
		var in *zoo.Inner
		if len(l) == 2 {
			in, _ = l[0].(*zoo.Inner)
		}
		switch {
		case in == nil || l[1] != "tail":
			viol("mismatch", fmt.Sprintf("decoded as %T %.100v", out, out))
		case in.A < 1 || in.A > 7 || (in.S != "x" && in.S != "p" && in.S != "q"):
			viol("mismatch", fmt.Sprintf("a field listed after a repeated name was not bound: got %+v", *in))
		}
	default:
		if d := zoo.Equiv(expect, out, zoo.EquivOpts{}); d != "" {
			viol("mismatch", d)
		} else if c.Kind == "skipref" {
			if f, ok := out.(*FRef); !ok || f.Owner != f.Editor {
				viol("mismatch", "the back-reference after the skipped container does not resolve to the owner object")
			}
		}
	}
	res.Count("kind="+c.Kind, 1)
}
