package work

import (
	"bytes"
	"fmt"
	"math"
	"math/rand"
	"reflect"
	"strings"

	hessian "github.com/vogo/gohessian"

	"verif/hspec"
	"verif/mon"
	"verif/zoo"
	"verif/zoo/alt4"
)

// C07 — integers exact and in the shortest form.
type c07 struct{}

func init() { Register(c07{}) }

func (c07) ID() string    { return "C07" }
func (c07) Level() string { return "exploration" }
func (c07) Rule() string {
	return "int32: contiguous ranges through Encoder.WriteObject/Decoder.ReadObject (every 4093rd value and every boundary also through ToBytes/ToObject); int64: every form boundary +-3, +-2^k+-1, uniform and log-uniform samples; ten Go integer kinds x {top, list element, map entry, struct field} on boundary tables and samples incl. values outside the wire type. Oracle: decoded number == input, emitted bytes == the document's shortest form (independent table), out-of-range => exact or error. Non-trivial = needs more than one octet; distinct by value (ranges are distinct by construction)."
}
func (c07) Exhaustive(tier string) (bool, string) {
	return tier == "thorough", "all 2^32 int32 values (streaming entry points)"
}

func (c07) Cases(tier string, seed int64, kf *KnownFindings) []Case {
	var cs []Case
	add := func(c Case) { c.Sub = -1; cs = append(cs, c) }
	add(Case{Kind: "i32table"})
	add(Case{Kind: "i64table"})
	add(Case{Kind: "bulk", Seed: Mix(seed, 4242)})
	add(Case{Kind: "samename", Seed: Mix(seed, 4343), Count: 60})
	add(Case{Kind: "widths", Seed: Mix(seed, 4344), Count: 120})
	add(Case{Kind: "afterrefusal"})
	if tier == "quick" {
		// 64 windows of 2^12 around spread points + random samples
		r := rand.New(rand.NewSource(seed))
		for i := 0; i < 48; i++ {
			start := int64(int32(r.Uint32()))
			add(Case{Kind: "i32range", A: start, B: start + 4096})
		}
		for _, b := range []int64{-16, 47, -2048, 2047, -262144, 262143, math.MinInt32 + 2048, math.MaxInt32 - 2048, 0} {
			add(Case{Kind: "i32range", A: b - 2048, B: b + 2048})
		}
		for i := 0; i < 16; i++ {
			add(Case{Kind: "i64rand", Seed: Mix(seed, i), Count: 6000})
		}
		for i := 0; i < 16; i++ {
			add(Case{Kind: "kinds", Seed: Mix(seed, 1000+i), Count: 150})
		}
	} else {
		const step = 1 << 22
		for a := int64(math.MinInt32); a <= math.MaxInt32; a += step {
			add(Case{Kind: "i32range", A: a, B: a + step})
		}
		for i := 0; i < 200; i++ {
			add(Case{Kind: "i64rand", Seed: Mix(seed, i), Count: 100000})
		}
		for i := 0; i < 64; i++ {
			add(Case{Kind: "kinds", Seed: Mix(seed, 1000+i), Count: 2000})
		}
	}
	return cs
}

// shortest forms, from the document's tables (independent of the library).
func specInt(v int32) []byte {
	switch {
	case v >= -16 && v <= 47:
		return []byte{byte(0x90 + v)}
	case v >= -2048 && v <= 2047:
		return []byte{byte(0xc8 + (v >> 8)), byte(v)}
	case v >= -262144 && v <= 262143:
		return []byte{byte(0xd4 + (v >> 16)), byte(v >> 8), byte(v)}
	}
	return []byte{'I', byte(v >> 24), byte(v >> 16), byte(v >> 8), byte(v)}
}

func specLong(v int64) []byte {
	switch {
	case v >= -8 && v <= 15:
		return []byte{byte(0xe0 + v)}
	case v >= -2048 && v <= 2047:
		return []byte{byte(0xf8 + (v >> 8)), byte(v)}
	case v >= -262144 && v <= 262143:
		return []byte{byte(0x3c + (v >> 16)), byte(v >> 8), byte(v)}
	case v >= math.MinInt32 && v <= math.MaxInt32:
		return []byte{0x59, byte(v >> 24), byte(v >> 16), byte(v >> 8), byte(v)}
	}
	return []byte{'L', byte(v >> 56), byte(v >> 48), byte(v >> 40), byte(v >> 32), byte(v >> 24), byte(v >> 16), byte(v >> 8), byte(v)}
}

type scalarStream struct {
	w   *mon.CountingWriter
	e   *hessian.Encoder
	r   *mon.MeteredReader
	d   *hessian.Decoder
	ser hessian.Serializer
	n   int
}

func newScalarStream() *scalarStream {
	s := &scalarStream{w: &mon.CountingWriter{}, r: &mon.MeteredReader{}}
	s.e = hessian.NewEncoder(s.w, nil)
	s.d = hessian.NewDecoder(s.r, nil)
	s.ser = hessian.NewSerializer(nil, nil)
	return s
}

// roundtrip through the streaming entry points; returns emitted bytes, decoded value.
func (s *scalarStream) rt(v interface{}) (wire []byte, out interface{}, encErr, decErr error, consumed int) {
	s.w.Reset()
	encErr = s.e.WriteObject(v)
	wire = s.w.Buf.Bytes()
	if encErr != nil {
		return
	}
	s.r.B, s.r.Off, s.r.Calls = wire, 0, 0
	s.n++
	s.r.Chunk = []int{0, 1, 3}[s.n%3] // whole value at once / one byte per Read / three bytes per Read
	s.r.EOFWithData = s.n%2 == 1      // the last byte arrives together with io.EOF
	out, decErr = s.d.ReadObject()
	consumed = s.r.Off
	return
}

type c07Offset int
type c07Handle uint64
type c07Count uint

type c07Leaf struct {
	V int64
	W int32
}

type c07Refs struct {
	L     []int32
	A     *c07Leaf
	M     []int64
	U     []uint16
	B     *c07Leaf
	Again *c07Leaf
	List  []*c07Leaf
}

func (c07) Run(c Case, env *Env) Result {
	var res Result
	ss := newScalarStream()
	viol := func(class string, feats []string, sub int, detail string) {
		cc := c
		cc.Sub = sub
		env.Viol(&res, Violation{Class: class, Features: feats, Detail: detail, Case: cc})
	}
	checkI32 := func(x int32, oneShot bool, sub int) {
		res.Evals++
		var wire []byte
		var out interface{}
		var consumed int
		pi, _ := Guard(func() {
			var e1, e2 error
			wire, out, e1, e2, consumed = ss.rt(x)
			if e1 != nil {
				viol("enc-error", []string{"int32"}, sub, fmt.Sprintf("int32 %d: %v", x, e1))
				return
			}
			if e2 != nil {
				viol("dec-error", []string{"int32"}, sub, fmt.Sprintf("int32 %d (%x): %v", x, wire, e2))
				return
			}
			if got, ok := out.(int32); !ok || got != x {
				viol("mismatch:value", []string{"int32"}, sub, fmt.Sprintf("int32 %d (%x) decoded as %T %v", x, wire, out, out))
			}
			if consumed != len(wire) {
				viol("framing", []string{"int32"}, sub, fmt.Sprintf("int32 %d: %d bytes emitted, %d consumed", x, len(wire), consumed))
			}
			if want := specInt(x); !bytes.Equal(wire, want) {
				viol("form:not-spec", []string{"int32"}, sub, fmt.Sprintf("int32 %d emitted as %x, document's shortest form is %x", x, wire, want))
			}
			if oneShot {
				b, err := hessian.ToBytes(x, nil)
				if err != nil || !bytes.Equal(b, specInt(x)) {
					viol("form:not-spec", []string{"int32", "oneshot"}, sub, fmt.Sprintf("ToBytes(int32 %d) = %x, %v", x, b, err))
					return
				}
				o, err := hessian.ToObject(b, nil)
				if got, ok := o.(int32); err != nil || !ok || got != x {
					viol("mismatch:value", []string{"int32", "oneshot"}, sub, fmt.Sprintf("ToObject(%x) = %T %v, %v; want int32 %d", b, o, o, err, x))
				}
				// the independent reference decoder must read the same number
				if rv, _, err := hspec.Parse(b); err != nil || rv.Kind != hspec.KInt || rv.I != int64(x) {
					viol("wire:refdec", []string{"int32"}, sub, fmt.Sprintf("refdec(%x) disagrees for int32 %d: %v", b, x, err))
				}
			}
		})
		if pi != nil {
			viol(pi.Class, []string{"int32"}, sub, fmt.Sprintf("int32 %d: panic %s", x, pi.Msg))
		}
	}
	checkI64 := func(x int64, sub int) {
		res.Evals++
		pi, _ := Guard(func() {
			wire, out, e1, e2, consumed := ss.rt(x)
			if e1 != nil {
				viol("enc-error", []string{"int64"}, sub, fmt.Sprintf("int64 %d: %v", x, e1))
				return
			}
			if e2 != nil {
				viol("dec-error", []string{"int64"}, sub, fmt.Sprintf("int64 %d (%x): %v", x, wire, e2))
				return
			}
			if got, ok := out.(int64); !ok || got != x {
				viol("mismatch:value", []string{"int64"}, sub, fmt.Sprintf("int64 %d (%x) decoded as %T %v", x, wire, out, out))
			}
			if consumed != len(wire) {
				viol("framing", []string{"int64"}, sub, fmt.Sprintf("int64 %d: %d bytes emitted, %d consumed", x, len(wire), consumed))
			}
			if want := specLong(x); !bytes.Equal(wire, want) {
				viol("form:not-spec", []string{"int64"}, sub, fmt.Sprintf("int64 %d emitted as %x, document's shortest form is %x", x, wire, want))
			}
			if rv, _, err := hspec.Parse(wire); err != nil || rv.Kind != hspec.KLong || rv.I != x {
				viol("wire:refdec", []string{"int64"}, sub, fmt.Sprintf("refdec(%x) disagrees for int64 %d: %v", wire, x, err))
			}
		})
		if pi != nil {
			viol(pi.Class, []string{"int64"}, sub, fmt.Sprintf("int64 %d: panic %s", x, pi.Msg))
		}
	}

	switch c.Kind {
	case "i32table":
		seen := map[int32]bool{}
		for _, b := range []int64{0, -16, 47, -2048, 2047, -262144, 262143, math.MinInt32, math.MaxInt32, 255, 256, 65535, 65536, 1 << 24, -(1 << 24)} {
			for d := int64(-3); d <= 3; d++ {
				x := b + d
				if x < math.MinInt32 || x > math.MaxInt32 || seen[int32(x)] {
					continue
				}
				seen[int32(x)] = true
				checkI32(int32(x), true, 0)
			}
		}
		for k := 0; k < 32; k++ {
			for _, x := range []int64{1<<uint(k) - 1, 1 << uint(k), 1<<uint(k) + 1, -(1 << uint(k)) - 1, -(1 << uint(k)), -(1 << uint(k)) + 1} {
				if x < math.MinInt32 || x > math.MaxInt32 || seen[int32(x)] {
					continue
				}
				seen[int32(x)] = true
				checkI32(int32(x), true, 0)
			}
		}
		res.NTCount = int64(len(seen)) - 64
		res.Sample(map[string]interface{}{"kind": "int32 boundary table", "values": len(seen), "example": fmt.Sprintf("%d -> %x", 262144, specInt(262144))})
	case "i32range":
		n := int64(0)
		for x := c.A; x < c.B && x <= math.MaxInt32; x++ {
			if x < math.MinInt32 {
				continue
			}
			if c.Sub >= 0 && x != c.A+int64(c.Sub) {
				continue
			}
			checkI32(int32(x), x%4093 == 0, int(x-c.A))
			if x < -16 || x > 47 {
				n++
			}
		}
		res.NTCount = n
		res.Count("int32_streaming_roundtrips", res.Evals)
		{
			x := int32(c.A)
			w, out, _, _, n := ss.rt(x)
			res.Sample(map[string]interface{}{"kind": "int32 range", "from": c.A, "to": c.B, "first": map[string]interface{}{"value": x, "wire": fmt.Sprintf("%x", w), "decoded": fmt.Sprintf("%T %v", out, out), "bytes_consumed": n}})
		}
	case "i64table":
		seen := map[int64]bool{}
		one := func(x int64) {
			if !seen[x] {
				seen[x] = true
				checkI64(x, 0)
			}
		}
		for _, b := range []int64{0, -8, 15, -2048, 2047, -262144, 262143, math.MinInt32, math.MaxInt32, math.MinInt64 + 3, math.MaxInt64 - 3} {
			for d := int64(-3); d <= 3; d++ {
				one(b + d)
			}
		}
		for k := 0; k < 63; k++ {
			p := int64(1) << uint(k)
			for _, x := range []int64{p - 1, p, p + 1, -p - 1, -p, -p + 1} {
				one(x)
			}
		}
		one(math.MinInt64)
		one(math.MaxInt64)
		res.NTCount = int64(len(seen)) - 24
		res.Sample(map[string]interface{}{"kind": "int64 boundary table", "values": len(seen), "example": fmt.Sprintf("%d -> %x", int64(262144), specLong(262144))})
	case "i64rand":
		r := rand.New(rand.NewSource(c.Seed))
		seen := map[int64]bool{}
		for j := 0; j < c.Count; j++ {
			var x int64
			if j%2 == 0 {
				x = int64(r.Uint64())
			} else {
				x = int64(r.Uint64()) >> uint(r.Intn(64))
			}
			if c.Sub >= 0 && j != c.Sub {
				continue
			}
			checkI64(x, j)
			if (x < -8 || x > 15) && !seen[x] {
				seen[x] = true
			}
		}
		res.NTCount = int64(len(seen))
		{
			x := int64(rand.New(rand.NewSource(c.Seed)).Uint64())
			w, out, _, _, n := ss.rt(x)
			res.Sample(map[string]interface{}{"kind": "int64 samples", "seed": c.Seed, "count": c.Count, "first": map[string]interface{}{"value": x, "wire": fmt.Sprintf("%x", w), "decoded": fmt.Sprintf("%T %v", out, out), "bytes_consumed": n}})
		}
	case "bulk":
		bulkCheck(env, &res, c, "int")
		res.Sample(map[string]interface{}{"kind": "bulk", "what": "long lists of longs/ints and scalars behind 4070..4100 bytes of padding"})
	case "widths":
		// integer lists of SEVERAL widths side by side in one class (one type map holds them all), each filled
		// with values up to the limits of its own width; and integer lists in front of shared pointers whose
		// targets hold integers (a list takes a reference number like any container)
		r := rand.New(rand.NewSource(c.Seed))
		for j := 0; j < c.Count; j++ {
			var v interface{}
			feats := []string{"int-lists-of-several-widths"}
			if j%2 == 0 {
				tn := &zoo.TwoNarrow{N: "n"}
				rv := reflect.ValueOf(tn).Elem()
				for f := 0; f < rv.NumField(); f++ {
					if rv.Field(f).Kind() != reflect.Slice {
						continue
					}
					n := 1 + r.Intn(5)
					sl := reflect.MakeSlice(rv.Field(f).Type(), n, n)
					for i := 0; i < n; i++ {
						x, beyond := pickInt(r, sl.Type().Elem())
						if !beyond {
							sl.Index(i).Set(x)
						}
					}
					// the limits of the width
					bits := uint(sl.Type().Elem().Bits())
					if k := sl.Type().Elem().Kind(); k >= reflect.Int && k <= reflect.Int64 && bits <= 32 {
						sl.Index(0).SetInt(1<<(bits-1) - 1)
						if n > 1 {
							sl.Index(1).SetInt(-1 << (bits - 1))
						}
					} else if k == reflect.Uint16 {
						sl.Index(0).SetUint(1<<16 - 1)
					}
					rv.Field(f).Set(sl)
				}
				v = tn
			} else {
				a, b := &c07Leaf{V: -9007199254740993 + int64(j), W: -262145}, &c07Leaf{V: 1 << 40, W: 2147483647}
				v = &c07Refs{L: []int32{int32(j), 70000}, A: b, M: []int64{1 << 50}, U: []uint16{65535}, B: a, Again: a, List: []*c07Leaf{b, a}}
				feats = []string{"int-lists-before-back-references"}
			}
			for variant := 0; variant < 2; variant++ {
				res.Evals++
				res.NTCount++
				var o rtOut
				how := "maps extracted from the value"
				if variant == 0 {
					o = roundTrip(v)
				} else {
					how = "name map from the value, type map from the type (TypeMapOf)"
					o.Stage = "encode"
					o.Panic, _ = Guard(func() {
						o.Wire, o.EncErr = hessian.ToBytes(v, hessian.NameMapFrom(v))
						if o.EncErr == nil {
							o.Stage = "decode"
							o.Dec, o.DecErr = hessian.ToObject(o.Wire, hessian.TypeMapOf(reflect.TypeOf(v)))
						}
					})
				}
				switch {
				case o.Panic != nil:
					viol(o.Panic.Class, feats, 0, fmt.Sprintf("%s: %s panic %s", how, o.Stage, o.Panic.Msg))
				case o.EncErr != nil:
					viol("enc-error", feats, 0, fmt.Sprintf("%s: %v", how, o.EncErr))
				case o.DecErr != nil:
					viol("dec-error", feats, 0, fmt.Sprintf("%s (%s): %v", how, hexClip(o.Wire), o.DecErr))
				default:
					if d := zoo.Equiv(v, o.Dec, zoo.EquivOpts{}); d != "" {
						viol("silent-alteration", feats, 0, fmt.Sprintf("%s (%s): %s", how, hexClip(o.Wire), d))
					} else if d := zoo.SameSharing(v, o.Dec); d != "" {
						viol("silent-alteration", feats, 0, fmt.Sprintf("%s (%s): %s", how, hexClip(o.Wire), d))
					}
				}
				res.Count(feats[0], 1)
			}
		}
		res.Sample(map[string]interface{}{"kind": "widths", "what": "zoo.TwoNarrow with []int8/[]int16/[]int32/[]int/[]uint16 at their limits; int lists before shared pointers"})
	case "samename":
		// two Go struct types with ONE short name (packages zoo and alt4) and other field orders, decoded in one
		// process, each message with its own maps: integers must land in the field whose NAME they travelled under
		r := rand.New(rand.NewSource(c.Seed))
		for j := 0; j < c.Count; j++ {
			for k := 0; k < 2; k++ {
				var v reflect.Value
				if (j+k)%2 == 0 {
					v = reflect.New(reflect.TypeOf(zoo.CaseInts{}))
				} else {
					v = reflect.New(reflect.TypeOf(alt4.CaseInts{}))
				}
				for f := 0; f < v.Elem().NumField(); f++ {
					x, beyond := pickInt(r, v.Elem().Field(f).Type())
					if beyond {
						x = reflect.Zero(x.Type())
					}
					v.Elem().Field(f).Set(x)
				}
				res.Evals++
				res.NTCount++
				o := roundTrip(v.Interface())
				feats := []string{"same-short-name-two-types", "pkg=" + v.Elem().Type().PkgPath()}
				switch {
				case o.Panic != nil:
					viol(o.Panic.Class, feats, 0, fmt.Sprintf("%+v: panic %s", v.Elem().Interface(), o.Panic.Msg))
				case o.EncErr != nil:
					viol("enc-error", feats, 0, fmt.Sprintf("%+v: %v", v.Elem().Interface(), o.EncErr))
				case o.DecErr != nil:
					viol("dec-error", feats, 0, fmt.Sprintf("%+v (%x): %v", v.Elem().Interface(), o.Wire, o.DecErr))
				default:
					if d := zoo.Equiv(v.Interface(), o.Dec, zoo.EquivOpts{}); d != "" {
						viol("silent-alteration", feats, 0, fmt.Sprintf("%s.%s %+v (%x): %s", v.Elem().Type().PkgPath(), v.Elem().Type().Name(), v.Elem().Interface(), o.Wire, d))
					}
				}
				res.Count("same_name_types_round_tripped", 1)
			}
		}
		res.Sample(map[string]interface{}{"kind": "samename", "what": "zoo.CaseInts and alt4.CaseInts (same short name, other field order) alternately in one process"})
	case "kinds":
		c07kinds(c, env, &res)
	case "lit":
		// committed witnesses: out-of-range Go integers at top level must be exact or rejected
		for _, v := range []interface{}{int(1) << 40, -(int(1) << 40), uint64(1) << 63, uint(1<<64 - 1),
			// the same through NAMED types of those kinds (whatever fast path the built-in kinds take)
			c07Offset(1) << 40, -(c07Offset(1) << 40), c07Handle(1) << 63, c07Handle(1<<64 - 1), c07Count(1<<64 - 1)} {
			res.Evals++
			res.NTCount++
			o := roundTrip(v)
			switch {
			case o.Panic != nil:
				viol(o.Panic.Class, []string{"beyond-wire-type"}, 0, fmt.Sprintf("%T %v: panic %s", v, v, o.Panic.Msg))
			case o.EncErr != nil:
				// fail-stop is allowed
			case o.DecErr != nil:
				viol("dec-error", []string{"beyond-wire-type"}, 0, fmt.Sprintf("%T %v: %v", v, v, o.DecErr))
			default:
				if !sameNumber(reflect.ValueOf(v), o.Dec) {
					viol("silent-alteration", []string{"beyond-wire-type"}, 0, fmt.Sprintf("%T %v (%x) decoded as %T %v", v, v, o.Wire, o.Dec, o.Dec))
				}
			}
		}
		res.Sample(map[string]interface{}{"kind": "literal out-of-range integers"})
	case "afterrefusal":
		// integers sent with an Encoder / Serializer whose PREVIOUS call refused a value part-way (an integer
		// beyond the wire type behind other data): the refusal must leave nothing behind - the next integers
		// come out in exactly the octets of a fresh instance, and decode to themselves
		type c07Rec struct {
			A int32
			B int
		}
		refused := []interface{}{[]int{1, 2, 1 << 40}, &c07Rec{A: 7, B: -(1 << 40)}, map[string]uint64{"k": 1 << 63},
			[]interface{}{int32(1), "s", uint(1<<64 - 1)}, []uint64{3, 1 << 63}}
		after := []interface{}{int32(5), int64(123456789012), int(-1), uint16(65535), int64(-2049), []int32{1, 70000}}
		for ri, bad := range refused {
			for _, entry := range []string{"Encoder.Encode", "Serializer.ToBytes", "Encoder.WriteTo"} {
				res.Evals++
				res.NTCount++
				feats := []string{"after-refusal", "entry=" + entry}
				var encode func(v interface{}) ([]byte, error)
				mk := func() func(v interface{}) ([]byte, error) {
					switch entry {
					case "Encoder.Encode":
						e := hessian.NewEncoder(&bytes.Buffer{}, map[string]string{"c07Rec": "c07Rec"})
						return e.Encode
					case "Serializer.ToBytes":
						z := hessian.NewSerializer(nil, map[string]string{"c07Rec": "c07Rec"})
						return z.ToBytes
					}
					e := hessian.NewEncoder(&bytes.Buffer{}, map[string]string{"c07Rec": "c07Rec"})
					return func(v interface{}) ([]byte, error) {
						var b bytes.Buffer
						err := e.WriteTo(&b, v)
						return b.Bytes(), err
					}
				}
				encode = mk()
				var err0 error
				pi, _ := Guard(func() { _, err0 = encode(bad) })
				if pi != nil {
					viol(pi.Class, feats, 0, fmt.Sprintf("refused value #%d %T: panic %s", ri, bad, pi.Msg))
					continue
				}
				if err0 == nil {
					continue // carried (exactly or not is judged above and in 'kinds'); nothing was refused
				}
				res.Count("refusals_followed_by_integers", 1)
				for _, v := range after {
					var got, want []byte
					var e1, e2 error
					pi, _ := Guard(func() { got, e1 = encode(v); want, e2 = mk()(v) })
					switch {
					case pi != nil:
						viol(pi.Class, feats, 0, fmt.Sprintf("%T %v after a refused %T: panic %s", v, v, bad, pi.Msg))
					case e2 != nil:
						// the fresh instance refuses it too: nothing to compare
					case e1 != nil:
						viol("enc-error", feats, 0, fmt.Sprintf("%T %v after a refused %T through %s: %v (a fresh instance encodes it)", v, v, bad, entry, e1))
					case !bytes.Equal(got, want):
						viol("wire:after-refusal", feats, 0, fmt.Sprintf("%T %v after a refused %T through %s: bytes %x, a fresh instance writes %x", v, v, bad, entry, got, want))
					}
				}
			}
		}
	}
	return res
}

var intKindTypes = []reflect.Type{
	reflect.TypeOf(int(0)), reflect.TypeOf(int8(0)), reflect.TypeOf(int16(0)), reflect.TypeOf(int32(0)), reflect.TypeOf(int64(0)),
	reflect.TypeOf(uint(0)), reflect.TypeOf(uint8(0)), reflect.TypeOf(uint16(0)), reflect.TypeOf(uint32(0)), reflect.TypeOf(uint64(0)),
}

var slFieldType = map[reflect.Kind]reflect.Type{
	reflect.Int: reflect.TypeOf(zoo.SlInt{}), reflect.Int8: reflect.TypeOf(zoo.SlInt8{}), reflect.Int16: reflect.TypeOf(zoo.SlInt16{}), reflect.Int32: reflect.TypeOf(zoo.SlInt32{}),
	reflect.Int64: reflect.TypeOf(zoo.SlInt64{}), reflect.Uint: reflect.TypeOf(zoo.SlUint{}), reflect.Uint16: reflect.TypeOf(zoo.SlUint16{}), reflect.Uint32: reflect.TypeOf(zoo.SlUint32{}),
	reflect.Uint64: reflect.TypeOf(zoo.SlUint64{}),
}

var scalarField = map[reflect.Kind]string{
	reflect.Int: "I", reflect.Int8: "I8", reflect.Int16: "I16", reflect.Int32: "I32", reflect.Int64: "I64",
	reflect.Uint: "U", reflect.Uint8: "U8", reflect.Uint16: "U16", reflect.Uint32: "U32", reflect.Uint64: "U64",
}

// pick draws a value of the kind: boundaries, samples, and values outside the wire type.
// notShortestInts parses a message with the reference decoder and reports the first int / long value
// that is not written in the shortest form of its wire type ("" if all are).
func notShortestInts(b []byte) string {
	rv, _, err := hspec.Parse(b)
	if err != nil {
		return ""
	}
	bad := ""
	hspec.Walk(rv, func(n *hspec.Value) {
		if bad != "" || n.Ann == nil || n.Ann.End <= n.Ann.Off || n.Ann.End > len(b) {
			return
		}
		var want []byte
		switch n.Kind {
		case hspec.KInt:
			want = specInt(int32(n.I))
		case hspec.KLong:
			want = specLong(n.I)
		default:
			return
		}
		if got := b[n.Ann.Off:n.Ann.End]; !bytes.Equal(got, want) {
			bad = fmt.Sprintf("%d is written as %x inside the message, the shortest form is %x", n.I, got, want)
		}
	})
	return bad
}

func pickInt(r *rand.Rand, t reflect.Type) (reflect.Value, bool) {
	v := reflect.New(t).Elem()
	beyond := false
	signed := t.Kind() >= reflect.Int && t.Kind() <= reflect.Int64
	bits := uint(t.Bits())
	var raw uint64
	switch r.Intn(4) {
	case 0:
		raw = uint64(zoo.I64Table[r.Intn(len(zoo.I64Table))])
	case 1:
		raw = r.Uint64() >> uint(r.Intn(64))
	case 2:
		raw = uint64(int64(r.Uint64()) >> uint(r.Intn(64)))
	default:
		k := uint(r.Intn(64))
		raw = uint64(1)<<k + uint64(r.Intn(3)) - 1
		if r.Intn(2) == 0 {
			raw = -raw
		}
	}
	if signed {
		x := int64(raw)
		if bits < 64 {
			x = x << (64 - bits) >> (64 - bits)
		}
		v.SetInt(x)
		if t.Kind() == reflect.Int && x != int64(int32(x)) {
			beyond = true
		}
	} else {
		x := raw
		if bits < 64 {
			x &= 1<<bits - 1
		}
		v.SetUint(x)
		if (t.Kind() == reflect.Uint || t.Kind() == reflect.Uint64) && x > math.MaxInt64 {
			beyond = true
		}
	}
	return v, beyond
}

func numOf(v reflect.Value) (int64, uint64, bool) {
	switch v.Kind() {
	case reflect.Int, reflect.Int8, reflect.Int16, reflect.Int32, reflect.Int64:
		return v.Int(), 0, true
	case reflect.Uint, reflect.Uint8, reflect.Uint16, reflect.Uint32, reflect.Uint64:
		return 0, v.Uint(), false
	}
	return 0, 0, true
}

// sameNumber: does the decoded dynamic value carry exactly the number of orig?
func sameNumber(orig reflect.Value, dec interface{}) bool {
	d := reflect.ValueOf(dec)
	if !d.IsValid() {
		return false
	}
	oi, ou, osigned := numOf(orig)
	switch d.Kind() {
	case reflect.Int, reflect.Int8, reflect.Int16, reflect.Int32, reflect.Int64:
		if osigned {
			return d.Int() == oi
		}
		return d.Int() >= 0 && uint64(d.Int()) == ou
	case reflect.Uint, reflect.Uint8, reflect.Uint16, reflect.Uint32, reflect.Uint64:
		if osigned {
			return oi >= 0 && uint64(oi) == d.Uint()
		}
		return d.Uint() == ou
	}
	return false
}

func c07kinds(c Case, env *Env, res *Result) {
	r := rand.New(rand.NewSource(c.Seed))
	positions := []string{"top", "elem", "map", "field", "slfield", "slfield"}
	for j := 0; j < c.Count; j++ {
		t := intKindTypes[r.Intn(len(intKindTypes))]
		pos := positions[r.Intn(len(positions))]
		xv, beyond := pickInt(r, t)
		if c.Sub >= 0 && j != c.Sub {
			continue
		}
		if (pos == "elem" || pos == "slfield") && t.Kind() == reflect.Uint8 {
			pos = "field" // []uint8 is a byte array, not a list of integers
		}
		if _, ok := slFieldType[t.Kind()]; pos == "slfield" && !ok {
			pos = "field"
		}
		feats := []string{"kind=" + t.Kind().String(), "pos=" + pos}
		if beyond {
			feats = append(feats, "beyond-wire-type", "beyond-wire-type:"+t.Kind().String()+"@"+pos)
		}
		env.Journal(c.Idx, j)
		res.Evals++
		res.NT = append(res.NT, Hash64(fmt.Sprintf("%v|%s|%v", t, pos, xv.Interface())))
		res.Count("kind="+t.Kind().String(), 1)
		res.Count("pos="+pos, 1)
		if beyond {
			res.Count("beyond_wire_type", 1)
		}
		cc := c
		cc.Sub = j
		viol := func(class, detail string) {
			env.Viol(res, Violation{Class: class, Features: feats, Detail: fmt.Sprintf("%v %v at %s: %s", t, xv.Interface(), pos, detail), Case: cc})
		}
		pi, _ := Guard(func() {
			var val interface{}
			var extract func(dec interface{}) (interface{}, bool)
			switch pos {
			case "top":
				val = xv.Interface()
				extract = func(d interface{}) (interface{}, bool) { return d, true }
			case "elem":
				s := reflect.MakeSlice(reflect.SliceOf(t), 3, 3)
				s.Index(1).Set(xv)
				s.Index(0).Set(reflect.ValueOf(1).Convert(t))
				s.Index(2).Set(reflect.ValueOf(2).Convert(t))
				val = s.Interface()
				extract = func(d interface{}) (interface{}, bool) {
					dv := reflect.ValueOf(d)
					if !dv.IsValid() || dv.Kind() != reflect.Slice || dv.Len() != 3 {
						return nil, false
					}
					return dv.Index(1).Interface(), true
				}
			case "map":
				m := map[interface{}]interface{}{xv.Interface(): xv.Interface()}
				val = m
				extract = func(d interface{}) (interface{}, bool) {
					dm, ok := d.(map[interface{}]interface{})
					if !ok || len(dm) != 1 {
						return nil, false
					}
					for k, v := range dm {
						if !sameNumber(xv, k) {
							return k, true
						}
						return v, true
					}
					return nil, false
				}
			case "slfield":
				if t.Kind() == reflect.Int64 {
					// the same long in integer lists that follow a typed map and a list of another width
					// (list type numbering), and in fields whose names differ only in letter case
					x := xv.Int()
					mt := &zoo.MapThenInts{M: zoo.NamedMap{"k": 1}, A: []int32{1, 2}, B: []int64{x, 3}, C: []int64{4, x}, D: []uint32{5}, E: []int64{x}}
					ci := &zoo.CaseInts{Kb: x, KB: x ^ 1, Mb: int32(x), MB: int32(x) ^ 1, Gb: uint64(x) >> 1, GB: uint16(x)}
					for _, v := range []interface{}{mt, ci} {
						o := roundTrip(v)
						switch {
						case o.Panic != nil:
							viol(o.Panic.Class, o.Stage+" panic "+o.Panic.Msg)
						case o.EncErr != nil:
							viol("enc-error", o.EncErr.Error())
						case o.DecErr != nil:
							viol("dec-error", fmt.Sprintf("%T (%x) %v", v, o.Wire, o.DecErr))
						default:
							if d := zoo.Equiv(v, o.Dec, zoo.EquivOpts{}); d != "" {
								viol("mismatch:value", fmt.Sprintf("%T (%x): %s", v, o.Wire, d))
							}
						}
					}
					res.Count("longs_in_lists_after_a_typed_map_and_in_case_variant_fields", 1)
				}
				// a slice FIELD of a struct, sent without a name map (the list travels untyped) and
				// decoded with a type map that holds classes only: the element conversion path
				hv := reflect.New(slFieldType[t.Kind()])
				s := reflect.MakeSlice(reflect.SliceOf(t), 3, 3)
				s.Index(1).Set(xv)
				s.Index(0).Set(reflect.ValueOf(1).Convert(t))
				s.Index(2).Set(reflect.ValueOf(2).Convert(t))
				hv.Elem().Field(0).Set(s)
				o := classOnlyRoundTrip(hv.Interface())
				switch {
				case o.Panic != nil:
					viol(o.Panic.Class, o.Stage+" panic "+o.Panic.Msg)
				case o.EncErr != nil:
					if !beyond {
						viol("enc-error", o.EncErr.Error())
					}
				case o.DecErr != nil:
					viol("dec-error", fmt.Sprintf("nil name map / class-only type map (%x) %v", o.Wire, o.DecErr))
				default:
					dv := reflect.ValueOf(o.Dec)
					if dv.Kind() != reflect.Ptr || dv.IsNil() || dv.Elem().Type() != slFieldType[t.Kind()] || dv.Elem().Field(0).Len() != 3 {
						viol("mismatch:shape", fmt.Sprintf("nil name map / class-only type map (%x) decoded as %T %v", o.Wire, o.Dec, o.Dec))
					} else if got := dv.Elem().Field(0).Index(1).Interface(); !sameNumber(xv, got) {
						cls := "mismatch:value"
						if beyond {
							cls = "silent-alteration"
						}
						viol(cls, fmt.Sprintf("nil name map / class-only type map (%x) decoded as %T %v", o.Wire, got, got))
					}
				}
				return
			case "field":
				s := &zoo.Scalars{S: "x"}
				reflect.ValueOf(s).Elem().FieldByName(scalarField[t.Kind()]).Set(xv)
				val = s
				// the same field behind wire fields the Go type does not have, holding a long / an int
				// in each of their forms: stepping over them must leave the number alone
				if !beyond && j%3 == 0 {
					res.Count("integer_fields_after_unknown_integer_fields", 1)
					gone := []*hspec.Value{hspec.Long(0), hspec.Long(2000), hspec.Long(-200000), hspec.Long(1 << 20), hspec.Long(-(1 << 30)), hspec.Long(1 << 40),
						hspec.Int(7), hspec.Int(-2000), hspec.Int(200000), hspec.Int(1 << 30)}[(j/3)%10]
					av := zoo.Denote(xv.Interface(), nil)
					fname := scalarField[t.Kind()]
					fname = strings.ToLower(fname[:1]) + fname[1:]
					tm, _ := hessian.ExtractTypeNameMap(s)
					ob := hspec.Object("Scalars", []string{"gone", fname, "gone2", "s"}, gone, av, gone, hspec.String("end"))
					rb, _ := hspec.Encode(ob, hspec.Canonical{}, hspec.EncOpts{})
					dv, derr := hessian.ToObject(rb, tm)
					ds, _ := dv.(*zoo.Scalars)
					switch {
					case derr != nil:
						viol("dec-error", fmt.Sprintf("behind unknown fields holding %s (%x): %v", hspec.ShortString(gone), rb, derr))
					case ds == nil:
						viol("mismatch:shape", fmt.Sprintf("behind unknown fields (%x): decoded as %T", rb, dv))
					case ds.S != "end" || !sameNumber(xv, reflect.ValueOf(ds).Elem().FieldByName(scalarField[t.Kind()]).Interface()):
						viol("mismatch:value", fmt.Sprintf("behind unknown fields holding %s (%x): decoded %v, s=%q", hspec.ShortString(gone), rb, reflect.ValueOf(ds).Elem().FieldByName(scalarField[t.Kind()]).Interface(), ds.S))
					}
				}
				extract = func(d interface{}) (interface{}, bool) {
					ds, ok := d.(*zoo.Scalars)
					if !ok {
						return nil, false
					}
					return reflect.ValueOf(ds).Elem().FieldByName(scalarField[t.Kind()]).Interface(), true
				}
			}
			typMap, nameMap := hessian.ExtractTypeNameMap(val)
			b, err := hessian.ToBytes(val, nameMap)
			if err != nil {
				if beyond {
					res.Count("beyond_rejected_with_error", 1)
					return // fail-stop is allowed for values outside the wire type
				}
				viol("enc-error", err.Error())
				return
			}
			if pos == "top" {
				// shortest form of the wire type documented for the kind
				dn := zoo.Denote(val, nameMap)
				var want []byte
				if dn.Kind == hspec.KInt {
					want = specInt(int32(dn.I))
				} else {
					want = specLong(dn.I)
				}
				if !beyond && !bytes.Equal(b, want) {
					viol("form:not-spec", fmt.Sprintf("emitted %x, want %x", b, want))
				}
			}
			if pos != "top" && !beyond {
				// every integer inside the message in the shortest form of its wire type, wherever it stands
				if bad := notShortestInts(b); bad != "" {
					viol("form:not-spec", bad)
				}
				res.Count("messages_whose_integers_were_checked_for_the_shortest_form", 1)
			}
			d, err := hessian.ToObject(b, typMap)
			if err != nil {
				viol("dec-error", fmt.Sprintf("(%x) %v", b, err))
				return
			}
			got, ok := extract(d)
			if !ok {
				viol("mismatch:shape", fmt.Sprintf("(%x) decoded as %T %v", b, d, d))
				return
			}
			if !sameNumber(xv, got) {
				cls := "mismatch:value"
				if beyond {
					cls = "silent-alteration"
				}
				viol(cls, fmt.Sprintf("(%x) decoded as %T %v", b, got, got))
			} else if beyond {
				res.Count("beyond_carried_exactly", 1)
			}
		})
		if pi != nil {
			viol(pi.Class, "panic "+pi.Msg)
		}
	}
	res.Sample(map[string]interface{}{"kind": "go-kinds", "seed": c.Seed, "count": c.Count, "example": "uint16 65535 as list element / int 1<<40 at top level"})
}
