package work

import (
	"time"

	"verif/zoo"
)

// literals are hand-written values used by committed known-finding witnesses
// (Case{Kind: "lit", S: name}); they never change with seeds.
var literals = map[string]func() (interface{}, []string){
	"time.wholesecond@top": func() (interface{}, []string) {
		return time.Unix(1500000000, 0), []string{"time.wholesecond", "type=top:Time"}
	},
	"time.wholesecond@field": func() (interface{}, []string) {
		return &zoo.Scalars{S: "x", T: time.Unix(1500000000, 0)}, []string{"time.wholesecond", "type=Scalars"}
	},
	"both-slices": func() (interface{}, []string) {
		return &zoo.BothSl{A: []zoo.Inner{{A: 1, S: "a"}}, B: []*zoo.Inner{nil, {A: 2, S: "b"}, nil}}, []string{"tag=slice-ptr-collision", "type=BothSl"}
	},
	"list256": func() (interface{}, []string) {
		v := make([]int32, 259)
		for i := range v {
			v[i] = int32(i)
		}
		return &zoo.SlInt32{V: v}, []string{"list.len256-263", "type=SlInt32"}
	},
	"map-str-int": func() (interface{}, []string) {
		return &zoo.MpStrInt{M: map[string]int{"a": 1, "b": 70000}}, []string{"type=MpStrInt"}
	},
	"map-str-struct": func() (interface{}, []string) {
		return &zoo.MpStrStruct{M: map[string]zoo.Inner{"a": {A: 1, S: "x"}}}, []string{"type=MpStrStruct"}
	},
	"map-of-map": func() (interface{}, []string) {
		return &zoo.MpStrMp{M: map[string]map[string]string{"a": {"k": "v"}, "e": {}}}, []string{"type=MpStrMp"}
	},
	"slice-of-map": func() (interface{}, []string) {
		return &zoo.SlMap{V: []map[string]int32{{"k": 1}, {}, {"j": 2}}}, []string{"type=SlMap"}
	},
	"empty-string-elem": func() (interface{}, []string) {
		return &zoo.SlStr{V: []string{"a", "", "b"}}, []string{"str.empty@elem", "type=SlStr"}
	},
	"empty-string-key": func() (interface{}, []string) {
		return &zoo.MpStrStr{M: map[string]string{"": "v", "k": "", "z": "w"}}, []string{"str.empty@mapkey", "type=MpStrStr"}
	},
	"nil-ptr-elem": func() (interface{}, []string) {
		return &zoo.SlPtr{V: []*zoo.Inner{{A: 1, S: "a"}, nil, {A: 2, S: "b"}}}, []string{"ptr.nil@elem", "type=SlPtr"}
	},
	"zero-time-elem": func() (interface{}, []string) {
		return &zoo.SlTime{V: []time.Time{time.Unix(1500000000, 5e6), {}, time.Unix(1600000000, 7e6)}}, []string{"time.zero@elem", "type=SlTime"}
	},
	"slice-of-slice": func() (interface{}, []string) {
		return &zoo.SlSl{V: [][]int32{{1, 2}, {}, {3}}}, []string{"type=SlSl"}
	},
	"map-of-slice": func() (interface{}, []string) {
		return &zoo.MpStrSl{M: map[string][]int32{"a": {1, 2}}}, []string{"type=MpStrSl"}
	},
	"class2-in-list": func() (interface{}, []string) {
		return &zoo.Bag{P01: &zoo.K01{A: 1}, L03: []zoo.K03{{A: 3}, {A: 4}}, L17: []zoo.K17{{A: 17}}, Tail: 9}, []string{"type=Bag", "class-instance@elem"}
	},
	"nil-map-before-shared-ptr": func() (interface{}, []string) {
		a := &zoo.GF{Id: 1}
		b := &zoo.GF{Id: 2, A: a, B: a} // b.M (nil map) is written between b and the shared a
		return &zoo.GHolder{Root: b, Early: b, Late: a}, []string{"type=GHolder", "shared-ptr"}
	},
	"time-before-shared-ptr": func() (interface{}, []string) {
		a := &zoo.GF{Id: 1, T: time.Unix(1500000000, 5e6)}
		b := &zoo.GF{Id: 2, T: time.Unix(1500000001, 5e6), A: a, B: a}
		return &zoo.GHolder{Root: b, Early: b, Late: a}, []string{"type=GHolder", "shared-ptr"}
	},
	"shr-two-lengths": func() (interface{}, []string) {
		arr := []int32{1, 2, 3, 4, 5}
		return &zoo.Shr{S1: arr[:2], S2: arr[:3]}, []string{"type=Shr", "two-lengths-one-array"}
	},
	"shr-empty-slices-of-two-types": func() (interface{}, []string) {
		return &zoo.TwoSlices{}, []string{"type=TwoSlices"}
	},
	"untyped-empty-list-twice": func() (interface{}, []string) {
		return &zoo.Shr{S1: []int32{}, S2: []int32{}, P1: []*zoo.Inner{}, P2: []*zoo.Inner{}}, []string{"type=Shr", "untyped-lists"}
	},
	"shr-same-slice-twice": func() (interface{}, []string) {
		arr := []int32{1, 2, 3}
		in := &zoo.Inner{A: 5, S: "x"}
		ps := []*zoo.Inner{in, in}
		return &zoo.Shr{S1: arr, S2: arr, P1: ps, P2: ps, PS: &ps}, []string{"type=Shr", "same-slice-twice"}
	},
	"integral-double-in-list": func() (interface{}, []string) {
		return &zoo.SlF64{V: []float64{0.5, 2, 100000, -1, 0.25}}, []string{"type=SlF64", "double.integral"}
	},
	"date-2040": func() (interface{}, []string) {
		return &zoo.Scalars{S: "x", T: time.Date(2040, 1, 1, 0, 0, 0, 5e6, time.UTC)}, []string{"type=Scalars"}
	},
	"top-unnamed-map": func() (interface{}, []string) {
		return map[string]int32{"a": 1, "b": 2}, []string{"tag=top-unnamed-map", "type=top:map[string]int32"}
	},
}
