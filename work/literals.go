package work

import (
	"time"

	"verif/zoo"
)

// literals are hand-written values used by committed known-finding witnesses
// (Case{Kind: "lit", S: name}); they never change with seeds.
var literals = map[string]func() (interface{}, []string){
	"time.wholesecond@top": func() (interface{}, []string) {
		return time.Unix(1500000000, 0), []string{"time.wholesecond", "type=top:Time"}
	},
	"time.wholesecond@field": func() (interface{}, []string) {
		return &zoo.Scalars{S: "x", T: time.Unix(1500000000, 0)}, []string{"time.wholesecond", "type=Scalars"}
	},
	"both-slices": func() (interface{}, []string) {
		return &zoo.BothSl{A: []zoo.Inner{{A: 1, S: "a"}}, B: []*zoo.Inner{nil, {A: 2, S: "b"}, nil}}, []string{"tag=slice-ptr-collision", "type=BothSl"}
	},
	"top-unnamed-map": func() (interface{}, []string) {
		return map[string]int32{"a": 1, "b": 2}, []string{"tag=top-unnamed-map", "type=top:map[string]int32"}
	},
}
