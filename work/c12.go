package work

import (
	"bytes"
	"fmt"
	"math/rand"
	"reflect"
	"runtime"
	"strings"
	"sync"
	"sync/atomic"

	hessian "github.com/vogo/gohessian"

	"verif/hspec"
	"verif/mon"
	"verif/zoo"
)

// C12 — distinct instances sharing maps run concurrently, race-free.
type c12 struct{}

func init() { Register(c12{}) }

func (c12) ID() string    { return "C12" }
func (c12) Level() string { return "exploration" }
func (c12) Rule() string {
	return "a corpus of encode inputs (values of every zoo type) and decode inputs (valid messages, truncated prefixes, byte flips, short random strings) is first run sequentially to obtain the expected result class of each entry (canonical hash of the value / bytes, masked error, panic class); then N in {2,4,16,64} goroutines with GOMAXPROCS in {2,4,16}, each with its OWN instance (NewSerializer, NewEncoder+NewDecoder, or taken from the three pools) over the SAME complete type/name maps and the SAME read-only input objects, replay random entries with random Gosched between calls and compare. The race portion runs on the -race worker (GORACE halt_on_error=0, reports counted from the log, de-duplicated by stack). Non-trivial = concurrent run with >= 2 goroutines; distinct by (N, GOMAXPROCS, instance kind, seed)."
}
func (c12) NeedsRace(string) bool { return true }
func (c12) ProcOpts() Proc        { return Proc{RlimitAS: 6 << 30, StallSec: 120} }
func (c12) Assumptions() []string {
	return []string{"the static clause of the quantifier (no write to package-level state on ANY reachable path) is outside runtime monitoring: only the driven paths are decided; statement coverage of the concurrent workload is what the evidence offers instead"}
}

func (c12) Cases(tier string, seed int64, kf *KnownFindings) []Case {
	var cs []Case
	add := func(c Case) { c.Sub = -1; cs = append(cs, c) }
	calls, raceCalls, reps := 4000, 1500, 1
	if tier == "thorough" {
		calls, raceCalls, reps = 200000, 20000, 4
	}
	i := 0
	for rep := 0; rep < reps; rep++ {
		for _, n := range []int{2, 4, 16, 64} {
			for _, procs := range []int{2, 4, 16} {
				for inst := 0; inst < 3; inst++ {
					i++
					if tier == "quick" && i%3 != 0 {
						continue
					}
					add(Case{Kind: "conc", N: n, M: procs, K: inst, Seed: Mix(seed, i), Count: calls})
					add(Case{Kind: "conc", N: n, M: procs, K: inst, Seed: Mix(seed, 7000+i), Count: raceCalls, Opt: []string{"race"}})
					if n >= 16 {
						add(Case{Kind: "conc", N: n, M: procs, K: inst, Seed: Mix(seed, 9000+i), Count: calls, Opt: []string{"lists"}})
					}
				}
			}
		}
	}
	add(Case{Kind: "stall", Count: 1})
	add(Case{Kind: "nilmaps", Count: 1})
	add(Case{Kind: "nilmaps", N: 8, Count: 200, Opt: []string{"race"}})
	return cs
}

type corpusEntry struct {
	// damaged: not a valid message; only the outcome category (value / error / panic class) is
	// compared, because what a damaged map decodes to may depend on Go's map iteration order
	damaged bool
	encode  bool
	val     interface{} // encode input (shared, read-only)
	wire    []byte      // decode input (shared, read-only)
	expect  string      // expected result class
	what    string
	long    bool // a list with a declared length of 65..1024
	pkg     int  // 1: through the package-level one-shot functions with the shared maps; 2: with nil maps
	dyn     bool // the message is built per call: an instance with a wire field no Go type has, under a NEW name every time
}

var c12dynCounter int64

// dynWire: Inner{a: 5, s: "q"} with an unknown field in between whose name no earlier call has used
func dynWire() []byte {
	n := atomic.AddInt64(&c12dynCounter, 1)
	o := hspec.Object("Inner", []string{"a", fmt.Sprintf("added%d", n), "s"}, hspec.Int(5), hspec.Int(int32(n)), hspec.String("q"))
	b, _ := hspec.Encode(o, hspec.Canonical{}, hspec.EncOpts{})
	return b
}

var instKinds = []string{"NewSerializer", "NewEncoder+NewDecoder", "pools"}

// sharedMaps builds complete maps covering every zoo type (merged extraction over populated witnesses).
func sharedMaps() (map[string]reflect.Type, map[string]string) {
	tm := map[string]reflect.Type{}
	nm := map[string]string{}
	for i, e := range zoo.Types {
		for _, wk := range []string{"one", "full"} {
			w, ok := witness(e, wk, int64(1000+i))
			if !ok {
				continue
			}
			t, n := hessian.ExtractTypeNameMap(w)
			for k, v := range t {
				if _, dup := tm[k]; !dup {
					tm[k] = v
				}
			}
			for k, v := range n {
				if _, dup := nm[k]; !dup {
					nm[k] = v
				}
			}
		}
	}
	// a class registered through a pointer type (what reflect.TypeOf(&T{}) gives): whatever the
	// decoder makes of such an entry, it must not rewrite it in the shared map
	tm["ptr.Registered"] = reflect.TypeOf(&zoo.Inner{})
	return tm, nm
}

// mergeMaps merges the maps extracted from v into tm/nm; it reports a collision when
// a wire name would have to stand for two different Go types (e.g. []T and []*T share
// one list type name): such a value cannot share maps with the ones merged before.
func mergeMaps(tm map[string]reflect.Type, nm map[string]string, v interface{}) (ok bool) {
	defer func() {
		if recover() != nil {
			ok = false
		}
	}()
	t, n := hessian.ExtractTypeNameMap(v)
	for k, typ := range t {
		if old, dup := tm[k]; dup && old != typ {
			return false
		}
	}
	for k, name := range n {
		if old, dup := nm[k]; dup && old != name {
			return false
		}
	}
	for k, typ := range t {
		tm[k] = typ
	}
	for k, name := range n {
		nm[k] = name
	}
	return true
}

// errClass: how an error result is compared. C12 compares error PRESENCE only: the text of an
// error for damaged input may legitimately depend on Go's map iteration order (which entry of a
// decoded map fails its conversion first), so it is not a function of the call alone.
var errClassWithMessage = false

func errClass(err error) string {
	if errClassWithMessage {
		return "err:" + MaskErr(err)
	}
	return "err"
}

func resultClassEnc(b []byte, err error, pi *PanicInfo, multi bool) string {
	switch {
	case pi != nil:
		return pi.Class
	case err != nil:
		return errClass(err)
	}
	if !multi {
		return fmt.Sprintf("bytes:%x", Hash64(string(b)))
	}
	v, _, perr := hspec.Parse(b)
	if perr != nil {
		return "unparsable:" + fmt.Sprint(len(b))
	}
	return fmt.Sprintf("value:%x", Hash64(hspec.Canon(v)))
}

func resultClassDec(v interface{}, err error, pi *PanicInfo) string {
	switch {
	case pi != nil:
		return pi.Class
	case err != nil:
		return errClass(err)
	}
	d := safeDenote(v, map[string]string{})
	if d == nil {
		return fmt.Sprintf("type:%T", v)
	}
	return fmt.Sprintf("%T:%x", v, Hash64(hspec.Canon(d)))
}

func buildCorpus(seed int64, env *Env, tm map[string]reflect.Type, nm map[string]string) []corpusEntry {
	var corpus []corpusEntry
	r := rand.New(rand.NewSource(seed))
	cfg := zooCfg(env, "C01")
	cfg.MaxLen, cfg.StrMax = 6, 20
	for i, e := range zoo.Types {
		if typeAvoided(env, "C01", e) {
			continue
		}
		for k := 0; k < 2; k++ {
			share := 0.0
			if e.Has("recursive") {
				share = 0.3
			}
			v, _ := zooValue(e, Mix(seed, i*10+k), cfg, share)
			corpus = append(corpus, corpusEntry{encode: true, val: v, what: "encode " + e.Name})
			b, err := hessian.ToBytes(v, copyNames(nm))
			if err != nil {
				continue
			}
			corpus = append(corpus, corpusEntry{wire: b, what: "decode valid " + e.Name})
			if len(b) > 2 {
				corpus = append(corpus, corpusEntry{damaged: true, wire: append([]byte{}, b[:1+r.Intn(len(b)-1)]...), what: "decode truncated " + e.Name})
				m := append([]byte{}, b...)
				m[r.Intn(len(m))] ^= byte(1 << uint(r.Intn(8)))
				corpus = append(corpus, corpusEntry{damaged: true, wire: m, what: "decode flipped " + e.Name})
			}
		}
	}
	// chunked strings and byte arrays (anything that could tempt an implementation into shared scratch buffers)
	for k := 0; k < 6; k++ {
		sv := &zoo.Scalars{S: strings.Repeat(string(rune('a'+k)), 2100+500*k), Bin: bytes.Repeat([]byte{byte(k)}, 5000+k)}
		corpus = append(corpus, corpusEntry{encode: true, val: sv, what: "encode long string"})
		if b, err := hessian.ToBytes(sv, copyNames(nm)); err == nil {
			corpus = append(corpus, corpusEntry{wire: b, what: "decode long string"})
		}
		ls := strings.Repeat(string(rune('A'+k)), 3000)
		corpus = append(corpus, corpusEntry{encode: true, val: ls, what: "encode top-level long string"})
	}
	// single-chunk byte arrays of 256..4096 bytes (a decoder might hand out slices of its input: the
	// concurrent phase overwrites every byte array it gets back, as a caller who owns its result may)
	for k := 0; k < 8; k++ {
		n := []int{256, 300, 1000, 1024, 2000, 4000, 4095, 4096}[k]
		for _, v := range []interface{}{bytes.Repeat([]byte{byte(0x10 + k)}, n), &zoo.Scalars{S: "k", Bin: bytes.Repeat([]byte{byte(0x20 + k)}, n)}, &zoo.SlBin{V: [][]byte{bytes.Repeat([]byte{byte(0x30 + k)}, n), {1}}}} {
			if b, err := hessian.ToBytes(v, copyNames(nm)); err == nil {
				corpus = append(corpus, corpusEntry{wire: b, what: fmt.Sprintf("decode %d-byte binary", n)})
			}
		}
	}
	// lists whose declared length lies in 65..1024 (whatever a decoder reserves for a declared length
	// must not be a budget shared between the decoders of a process)
	for k := 0; k < 12; k++ {
		n := []int{65, 100, 500, 900, 1000, 1024}[k%6]
		var v interface{}
		if k < 6 {
			l := make([]int32, n)
			for i := range l {
				l[i] = int32(i * k)
			}
			v = &zoo.SlInt32{V: l}
		} else {
			l := make([]string, n)
			for i := range l {
				l[i] = fmt.Sprintf("s%d", i)
			}
			v = &zoo.SlStr{V: l}
		}
		if b, err := hessian.ToBytes(v, copyNames(nm)); err == nil {
			corpus = append(corpus, corpusEntry{wire: b, long: true, what: fmt.Sprintf("decode list of %d", n)})
		}
	}
	// messages naming classes the type map does not know, under many different qualified names
	for k := 0; k < 60; k++ {
		o := hspec.Object(fmt.Sprintf("p%dx%d.Inner", k%7, k), []string{"a", "s"}, hspec.Int(int32(k)), hspec.String("q"))
		b, _ := hspec.Encode(o, hspec.Canonical{}, hspec.EncOpts{})
		corpus = append(corpus, corpusEntry{damaged: true, wire: b, what: "decode unknown qualified class"})
	}
	for k := 0; k < 12; k++ {
		o := hspec.Object("ptr.Registered", []string{"a", "s"}, hspec.Int(int32(k)), hspec.String("r"))
		if k%2 == 1 {
			o = hspec.List("", o, o.Elems[1], o)
		}
		b, _ := hspec.Encode(o, hspec.Canonical{}, hspec.EncOpts{})
		corpus = append(corpus, corpusEntry{wire: b, what: "decode class registered through a pointer type"})
	}
	// unknown wire fields under names never seen before by this PROCESS (whatever a decoder remembers
	// about unknown fields must not be unsynchronised package-level state); many entries, so that
	// several decoders are on that path at once
	for k := 0; k < 60; k++ {
		corpus = append(corpus, corpusEntry{dyn: true, what: "decode an unknown field under a new name"})
	}
	// input that parses but makes the runtime panic inside the decoder (a map keyed by a list / by a map):
	// every entry point recovers; whatever it reports must be its own
	for k := 0; k < 30; k++ {
		key := []byte{0x57, byte(0x90 + k), 'Z'}
		if k%2 == 1 {
			key = []byte{'H', byte(0x90 + k), 0x91, 'Z'}
		}
		b := append(append([]byte{'H'}, key...), 0x91, 'Z')
		for d := 0; d < k%4; d++ {
			b = append(append([]byte{0x57}, b...), 'Z')
		}
		corpus = append(corpus, corpusEntry{damaged: true, wire: b, what: "decode a map keyed by a container"})
	}
	for k := 0; k < 40; k++ {
		g := make([]byte, 1+r.Intn(24))
		r.Read(g)
		corpus = append(corpus, corpusEntry{damaged: true, wire: g, what: "decode random"})
	}
	// the package-level one-shot functions (whatever they keep between calls is shared by the whole process):
	// with the shared maps and with no maps at all, next to one another
	for k := 0; k < 12; k++ {
		v := &zoo.WithInner{X: zoo.Inner{A: int32(k), S: "pk"}, P: &zoo.Inner{A: 2, S: "p"}, N: int32(k)}
		var lv interface{} = &zoo.SlPtr{V: []*zoo.Inner{{A: int32(k), S: "e"}}}
		corpus = append(corpus, corpusEntry{encode: true, val: v, pkg: 1 + k%2, what: "one-shot ToBytes of a struct"}, corpusEntry{encode: true, val: lv, pkg: 1 + k%2, what: "one-shot ToBytes of a typed list holder"})
		if b, err := hessian.ToBytes(v, copyNames(nm)); err == nil {
			corpus = append(corpus, corpusEntry{wire: b, pkg: 1 + k%2, what: "one-shot ToObject"})
		}
	}
	// instances of the third, fourth, ... class of a message in VALUE position (their compact tags x62, x63
	// double as legacy chunk tags), and - as the LAST entries, so that the alone pass meets them after everything
	// else - binaries chunked the legacy way ('b' non-final chunks): what one decoder learns about its peer's
	// dialect is that decoder's business
	for k := 0; k < 8; k++ {
		v := []interface{}{&zoo.K01{A: int32(k)}, &zoo.K02{A: 2}, &zoo.K03{A: 3}, &zoo.K03{A: 4}, &zoo.K04{A: 5}, map[interface{}]interface{}{"k": &zoo.K03{A: 6}}}
		if b, err := hessian.ToBytes(v, copyNames(nm)); err == nil {
			corpus = append(corpus, corpusEntry{wire: b, what: "decode third-class instances in value position"})
		}
	}
	for k := 0; k < 8; k++ {
		b := []byte{0x62, 0x00, 0x02, 0x01, byte(k), 'B', 0x00, 0x01, 0x03}
		if k%2 == 1 {
			b = append(append([]byte{0x57}, b...), 0x22, 7, 8, 'Z')
		}
		corpus = append(corpus, corpusEntry{wire: b, what: "decode legacy-chunked binary"})
	}
	return corpus
}

// c12maps: the shared maps, for the corpus entries that go through the package-level functions
var c12maps struct {
	tm map[string]reflect.Type
	nm map[string]string
}

type instance struct {
	enc *hessian.Encoder
	dec *hessian.Decoder
	ser hessian.Serializer
}

func (in *instance) run(e *corpusEntry, multi bool) string {
	if e.encode {
		var b []byte
		var err error
		pi, _ := Guard(func() {
			if e.pkg == 1 {
				b, err = hessian.ToBytes(e.val, c12maps.nm)
			} else if e.pkg == 2 {
				b, err = hessian.ToBytes(e.val, nil)
			} else if in.ser != nil {
				b, err = in.ser.ToBytes(e.val)
			} else {
				b, err = in.enc.Encode(e.val)
			}
		})
		return resultClassEnc(b, err, pi, multi)
	}
	var v interface{}
	var err error
	wire := e.wire
	if e.dyn {
		wire = dynWire()
	}
	pi, _ := Guard(func() {
		if e.pkg == 1 {
			v, err = hessian.ToObject(wire, c12maps.tm)
		} else if e.pkg == 2 {
			v, err = hessian.ToObject(wire, nil)
		} else if in.ser != nil {
			v, err = in.ser.ToObject(wire)
		} else {
			v, err = in.dec.Decode(wire)
		}
	})
	if e.damaged && pi == nil && err == nil {
		return "value"
	}
	cls := resultClassDec(v, err, pi)
	if pi == nil && err == nil {
		// the caller owns what a decode returns: overwrite every byte array in it. If the result
		// shares memory with the (shared, read-only) input, later decodes of that input differ.
		scribbleBytes(reflect.ValueOf(v), 0)
	}
	return cls
}

func scribbleBytes(v reflect.Value, depth int) {
	if !v.IsValid() || depth > 6 {
		return
	}
	switch v.Kind() {
	case reflect.Interface, reflect.Ptr:
		if !v.IsNil() {
			scribbleBytes(v.Elem(), depth+1)
		}
	case reflect.Struct:
		if v.Type() == zoo.TimeType {
			return
		}
		for i := 0; i < v.NumField(); i++ {
			scribbleBytes(v.Field(i), depth+1)
		}
	case reflect.Slice:
		if v.Type().Elem().Kind() == reflect.Uint8 {
			if v.CanSet() || v.Len() > 0 {
				b := v.Bytes()
				for i := range b {
					b[i] = 0xEE
				}
			}
			return
		}
		for i := 0; i < v.Len() && i < 8; i++ {
			scribbleBytes(v.Index(i), depth+1)
		}
	}
}

func (c12) Run(c Case, env *Env) Result {
	var res Result
	switch c.Kind {
	case "stall":
		c12stall(c, env, &res)
		return res
	case "nilmaps":
		c12nilmaps(c, env, &res)
		return res
	}
	feats := []string{fmt.Sprintf("goroutines=%d", c.N), fmt.Sprintf("GOMAXPROCS=%d", c.M), "instances=" + instKinds[c.K]}
	cc := c
	cc.Sub = 0
	tm, nm := sharedMaps()
	c12maps.tm, c12maps.nm = tm, nm
	corpus := buildCorpus(c.Seed, env, tm, nm)
	multi := make([]bool, len(corpus))
	// sequential pass: expected result of every entry, run alone
	seq := &instance{ser: hessian.NewSerializer(tm, nm)}
	for i := range corpus {
		env.J(c.Idx, i)
		if corpus[i].encode {
			multi[i] = hasMultiEntryMap(reflect.ValueOf(corpus[i].val), 0)
		}
		wireBefore := append([]byte(nil), corpus[i].wire...)
		corpus[i].expect = seq.run(&corpus[i], multi[i])
		if !bytes.Equal(wireBefore, corpus[i].wire) {
			// run() overwrote the byte arrays of the RESULT; the shared input changed with them
			env.Viol(&res, Violation{Class: "result-aliases-shared-input", Features: feats, Detail: corpus[i].what + ": overwriting the byte arrays of the decoded value changed the input bytes, which other instances decode at the same time", Case: cc})
			copy(corpus[i].wire, wireBefore)
		}
		// an entry must be deterministic when run alone, otherwise it cannot serve as an oracle
		if again := (&instance{ser: hessian.NewSerializer(tm, nm)}).run(&corpus[i], multi[i]); again != corpus[i].expect {
			corpus[i].expect = ""
			res.Count("corpus_entries_nondeterministic_alone", 1)
		}
	}
	// The concurrent phase works on a SECOND, untouched pair of complete maps with the same
	// content: if the library writes to a complete map on the normal path, that write must
	// happen under concurrency (not be absorbed by the sequential reference pass above).
	tm, nm = sharedMaps()
	nmSnap := copyNames(nm)
	tmLen := len(tm)
	tmSnap := make(map[string]reflect.Type, len(tm))
	for k, t := range tm {
		tmSnap[k] = t
	}
	old := runtime.GOMAXPROCS(c.M)
	defer runtime.GOMAXPROCS(old)
	env.J(c.Idx, 1000000)
	var inflight, maxInflight, overlapped, calls, mismatches int64
	var firstMismatch atomic.Value
	encPool := hessian.NewEncoderPool(8, nm)
	decPool := hessian.NewDecoderPool(8, tm)
	serPool := hessian.NewSerializerPool(8, tm, nm)
	per := c.Count / c.N
	if per < 10 {
		per = 10
	}
	// "lists" cases: every call decodes a list with a declared length of 65..1024, so that many
	// decoders are inside such a list at the same moment
	listsOnly := false
	for _, o := range c.Opt {
		if o == "lists" {
			listsOnly = true
		}
	}
	var longIdx []int
	for i := range corpus {
		if corpus[i].long && corpus[i].expect != "" {
			longIdx = append(longIdx, i)
		}
	}
	if len(longIdx) == 0 {
		listsOnly = false
	}
	var wg sync.WaitGroup
	start := make(chan struct{})
	for g := 0; g < c.N; g++ {
		wg.Add(1)
		go func(g int) {
			defer wg.Done()
			r := rand.New(rand.NewSource(Mix(c.Seed, 100+g)))
			var in *instance
			switch c.K {
			case 0:
				in = &instance{ser: hessian.NewSerializer(tm, nm)}
			case 1:
				in = &instance{enc: hessian.NewEncoder(nil, nm), dec: hessian.NewDecoder(nil, tm)}
			}
			<-start
			for i := 0; i < per; i++ {
				k := r.Intn(len(corpus))
				if listsOnly {
					k = longIdx[r.Intn(len(longIdx))]
				}
				e := &corpus[k]
				if e.expect == "" {
					continue
				}
				cur := in
				var back func()
				if c.K == 2 {
					switch r.Intn(2) {
					case 0:
						s := serPool.Get().(hessian.Serializer)
						cur = &instance{ser: s}
						back = func() { serPool.Return(s) }
					default:
						en := encPool.Get().(*hessian.Encoder)
						de := decPool.Get().(*hessian.Decoder)
						cur = &instance{enc: en, dec: de}
						back = func() { encPool.Return(en); decPool.Return(de) }
					}
				}
				n := atomic.AddInt64(&inflight, 1)
				if n > 1 {
					atomic.AddInt64(&overlapped, 1)
				}
				for {
					mx := atomic.LoadInt64(&maxInflight)
					if n <= mx || atomic.CompareAndSwapInt64(&maxInflight, mx, n) {
						break
					}
				}
				got := cur.run(e, multi[k])
				atomic.AddInt64(&inflight, -1)
				atomic.AddInt64(&calls, 1)
				if back != nil {
					back()
				}
				if got != e.expect {
					if atomic.AddInt64(&mismatches, 1) == 1 {
						firstMismatch.Store(fmt.Sprintf("%s: alone -> %s, under concurrency -> %s", e.what, e.expect, got))
					}
				}
				if r.Intn(4) == 0 {
					runtime.Gosched()
				}
			}
		}(g)
	}
	close(start)
	wg.Wait()
	res.Evals = calls
	res.NT = append(res.NT, Hash64(fmt.Sprint(feats, c.Seed, c.Opt)))
	res.Count("concurrent_calls", calls)
	res.Count("calls_overlapping_another_call", overlapped)
	res.Max("max_calls_in_flight", maxInflight)
	res.Max("corpus_size", int64(len(corpus)))
	if env.Race {
		res.Count("calls_under_race_detector", calls)
	}
	if mismatches > 0 {
		env.Viol(&res, Violation{Class: "result-differs-under-concurrency", Features: feats, Detail: fmt.Sprintf("%d of %d calls: %v", mismatches, calls, firstMismatch.Load()), Case: cc})
	}
	// the shared complete maps must not have been written to
	if len(tm) != tmLen || !sameNames(nm, nmSnap) {
		env.Viol(&res, Violation{Class: "shared-map-written", Features: feats, Detail: fmt.Sprintf("shared maps changed during the concurrent phase: typMap %d->%d entries, nameMap %d->%d", tmLen, len(tm), len(nmSnap), len(nm)), Case: cc})
	}
	for k, t := range tmSnap {
		if now, ok := tm[k]; !ok || now != t {
			env.Viol(&res, Violation{Class: "shared-map-written", Features: feats, Detail: fmt.Sprintf("shared type map entry %q was %v before the concurrent phase and is %v after it", k, t, now), Case: cc})
			break
		}
	}
	if len(res.Samples) == 0 {
		res.Sample(map[string]interface{}{"goroutines": c.N, "GOMAXPROCS": c.M, "instances": instKinds[c.K], "calls": calls, "overlapping": overlapped, "corpus": len(corpus), "example_entry": corpus[1].what + " -> " + corpus[1].expect})
	}
	return res
}

func sameNames(a, b map[string]string) bool {
	if len(a) != len(b) {
		return false
	}
	for k, v := range a {
		if b[k] != v {
			return false
		}
	}
	return true
}

var _ = mon.NewReader

// ---- an instance whose writer / reader is stalled does not stall another instance

type gateWriter struct {
	k, calls int
	entered  chan struct{}
	gate     chan struct{}
	buf      bytes.Buffer
}

func (g *gateWriter) Write(p []byte) (int, error) {
	g.calls++
	if g.calls == g.k {
		close(g.entered)
		<-g.gate // the destination does not take the bytes yet (a pipe, a socket under back-pressure)
	}
	return g.buf.Write(p)
}

// c12stall: encoder A is held inside its k-th Write (for every k); meanwhile encoder B - another
// instance, another writer - encodes a value of a class name never seen before in this process and
// must return. If B waits for A, every goroutine of the worker is blocked and the Go runtime ends the
// process with "all goroutines are asleep - deadlock!" (the worker has no timers): a verdict without a clock.
func c12stall(c Case, env *Env, res *Result) {
	val := &zoo.WithInner{X: zoo.Inner{A: 1, S: "s"}, P: &zoo.Inner{A: 2, S: "p"}, N: 3}
	names := func(tag string) map[string]string {
		return map[string]string{"WithInner": "stall." + tag + ".WithInner", "Inner": "stall." + tag + ".Inner"}
	}
	probe := &gateWriter{k: -1}
	hessian.NewEncoder(probe, names("probe")).WriteObject(val)
	W := probe.calls
	for k := 1; k <= W; k++ {
		env.J(c.Idx, k)
		res.Evals++
		gw := &gateWriter{k: k, entered: make(chan struct{}), gate: make(chan struct{})}
		done := make(chan struct{})
		go func() {
			defer close(done)
			hessian.NewEncoder(gw, names(fmt.Sprintf("a%d", k))).WriteObject(val)
		}()
		<-gw.entered
		// A is inside its k-th Write. B: a different instance, its own writer, a class name new to the process.
		w := &mon.CountingWriter{}
		err := hessian.NewEncoder(w, names(fmt.Sprintf("b%d", k))).WriteObject(val)
		if err != nil || w.Buf.Len() == 0 {
			env.Viol(res, Violation{Class: "result-differs-under-concurrency", Features: []string{"stalled-writer"}, Detail: fmt.Sprintf("while another encoder was held in Write #%d, an independent encoder failed: %v", k, err), Case: c})
		}
		// and a decoder of yet another class name
		wire, _ := hessian.ToBytes(&zoo.Inner{A: 5, S: "d"}, map[string]string{"Inner": fmt.Sprintf("stall.d%d.Inner", k)})
		if _, derr := hessian.ToObject(wire, map[string]reflect.Type{fmt.Sprintf("stall.d%d.Inner", k): reflect.TypeOf(zoo.Inner{})}); derr != nil {
			env.Viol(res, Violation{Class: "result-differs-under-concurrency", Features: []string{"stalled-writer"}, Detail: fmt.Sprintf("while an encoder was held in Write #%d, an independent decode failed: %v", k, derr), Case: c})
		}
		close(gw.gate)
		<-done
	}
	res.NT = append(res.NT, Hash64("stall"), Hash64("stall2"))
	res.Count("writes_at_which_an_encoder_was_held_while_another_instance_worked", int64(W))
}

// ---- instances built WITHOUT maps have private maps

func c12nilmaps(c Case, env *Env, res *Result) {
	wire, _ := hessian.ToBytes(&zoo.Inner{A: 5, S: "d"}, map[string]string{"Inner": "nil.maps.Inner"})
	outcome := func(d *hessian.Decoder) string {
		v, err := d.Decode(wire)
		return fmt.Sprintf("%T/%v", v, err != nil)
	}
	encOutcome := func(e *hessian.Encoder) string {
		b, err := e.Encode(&zoo.Inner{A: 1, S: "e"})
		return fmt.Sprintf("%x/%v", b, err != nil)
	}
	race := false
	for _, o := range c.Opt {
		race = race || o == "race"
	}
	if race {
		// every goroutine owns its map-less instances and registers into them: nothing is shared
		var wg sync.WaitGroup
		for g := 0; g < c.N; g++ {
			wg.Add(1)
			go func(g int) {
				defer wg.Done()
				for i := 0; i < c.Count; i++ {
					d := hessian.NewDecoder(nil, nil)
					d.RegisterVal(fmt.Sprintf("c%d.%d", g, i), zoo.Inner{})
					d.RegisterType("nil.maps.Inner", reflect.TypeOf(zoo.Inner{}))
					d.Decode(wire)
					e := hessian.NewEncoder(nil, nil)
					e.RegisterNameType("Inner", fmt.Sprintf("r%d", g))
					e.Encode(&zoo.Inner2{})
					s := hessian.NewSerializer(nil, nil)
					s.ToBytes(&zoo.WithInner{})
					s.ToObject(wire)
					atomic.AddInt64(&res.Evals, 1)
				}
			}(g)
		}
		wg.Wait()
		res.NT = append(res.NT, Hash64("nilmaps-race"))
		return
	}
	// what an instance with an explicit, private, EMPTY map does is what a map-less one must do,
	// whatever was registered through OTHER map-less instances before
	wantDec := outcome(hessian.NewDecoder(nil, map[string]reflect.Type{}))
	wantEnc := encOutcome(hessian.NewEncoder(nil, map[string]string{}))
	for round := 0; round < 20; round++ {
		res.Evals++
		d1 := hessian.NewDecoder(nil, nil)
		d1.RegisterVal("nil.maps.Inner", zoo.Inner{})
		d1.RegisterType("nil.maps.Other", reflect.TypeOf(zoo.Inner2{}))
		d1.Decode(wire)
		e1 := hessian.NewEncoder(nil, nil)
		e1.RegisterNameType("Inner", "renamed.by.e1")
		e1.Encode(&zoo.Inner{})
		hessian.NewSerializer(nil, nil).ToBytes(&zoo.Inner{})
		if got := outcome(hessian.NewDecoder(nil, nil)); got != wantDec {
			env.Viol(res, Violation{Class: "shared-map-written", Features: []string{"instances-without-maps"}, Detail: fmt.Sprintf("after RegisterVal / RegisterType on ANOTHER decoder built without a type map, a new map-less decoder gives %s (one with a private empty map: %s)", got, wantDec), Case: c})
			break
		}
		if got := encOutcome(hessian.NewEncoder(nil, nil)); got != wantEnc {
			env.Viol(res, Violation{Class: "shared-map-written", Features: []string{"instances-without-maps"}, Detail: fmt.Sprintf("after RegisterNameType on ANOTHER encoder built without a name map, a new map-less encoder gives %s (one with a private empty map: %s)", got, wantEnc), Case: c})
			break
		}
		if v, err := hessian.ToObject(wire, nil); fmt.Sprintf("%T/%v", v, err != nil) != wantDec {
			env.Viol(res, Violation{Class: "shared-map-written", Features: []string{"instances-without-maps"}, Detail: "ToObject without a type map is influenced by registrations on other map-less decoders", Case: c})
			break
		}
	}
	res.NT = append(res.NT, Hash64("nilmaps"), Hash64("nilmaps2"))
}
