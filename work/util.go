package work

import (
	"fmt"
	"reflect"

	hessian "github.com/vogo/gohessian"

	"verif/hspec"
)

// rtOut is the outcome of one one-shot round trip through the public API.
type rtOut struct {
	TypMap  map[string]reflect.Type
	NameMap map[string]string
	Wire    []byte
	Dec     interface{}
	EncErr  error
	DecErr  error
	Panic   *PanicInfo
	Stage   string // where a panic happened: extract | encode | decode
}

// roundTrip: ExtractTypeNameMap, ToBytes, ToObject, exactly as the README documents.
func roundTrip(v interface{}) (o rtOut) {
	o.Stage = "extract"
	pi, _ := Guard(func() {
		o.TypMap, o.NameMap = hessian.ExtractTypeNameMap(v)
		o.Stage = "encode"
		o.Wire, o.EncErr = hessian.ToBytes(v, o.NameMap)
		if o.EncErr != nil {
			return
		}
		o.Stage = "decode"
		o.Dec, o.DecErr = hessian.ToObject(o.Wire, o.TypMap)
	})
	o.Panic = pi
	return
}

func hexClip(b []byte) string {
	if len(b) > 96 {
		return fmt.Sprintf("%x...(%d bytes)", b[:96], len(b))
	}
	return fmt.Sprintf("%x", b)
}

// refParse parses emitted bytes with the reference decoder.
func refParse(b []byte) (*hspec.Value, *hspec.Parser, error) {
	return hspec.Parse(b)
}

func parseErrClass(err error) string {
	if pe, ok := err.(*hspec.ParseError); ok {
		return "wire:" + pe.Class
	}
	return "wire:error"
}

// nopJournal is used when env.Journal is unset.
func (e *Env) J(idx, sub int) {
	if e.Journal != nil {
		e.Journal(idx, sub)
	}
}

// subRange returns the loop bounds of a batch honouring resume (From) and replay (Sub).
func subRange(c Case) (int, int) {
	if c.Sub >= 0 {
		return c.Sub, c.Sub + 1
	}
	return c.From, c.Count
}

func hspecHx(s string) []byte { return hspec.Hx(s) }
