package work

import (
	"fmt"
	"math/rand"
	"reflect"
	"strings"
	"time"

	hessian "github.com/vogo/gohessian"

	"verif/hspec"
	"verif/mon"
	"verif/zoo"
)

// rtOut is the outcome of one one-shot round trip through the public API.
type rtOut struct {
	TypMap  map[string]reflect.Type
	NameMap map[string]string
	Wire    []byte
	Dec     interface{}
	EncErr  error
	DecErr  error
	Panic   *PanicInfo
	Stage   string // where a panic happened: extract | encode | decode
}

// roundTrip: ExtractTypeNameMap, ToBytes, ToObject, exactly as the README documents.
func roundTrip(v interface{}) (o rtOut) {
	o.Stage = "extract"
	pi, _ := Guard(func() {
		o.TypMap, o.NameMap = hessian.ExtractTypeNameMap(v)
		o.Stage = "encode"
		o.Wire, o.EncErr = hessian.ToBytes(v, o.NameMap)
		if o.EncErr != nil {
			return
		}
		o.Stage = "decode"
		o.Dec, o.DecErr = hessian.ToObject(o.Wire, o.TypMap)
	})
	o.Panic = pi
	return
}

// classOnlyRoundTrip is the other documented way of calling: no name map on the encoding side
// (lists then travel untyped) and only the classes registered on the decoding side (list and map
// types come from the Go field types, through the decoder's conversion path).
func classOnlyRoundTrip(v interface{}) (o rtOut) {
	o.Stage = "extract"
	pi, _ := Guard(func() {
		tm, _ := hessian.ExtractTypeNameMap(v)
		o.TypMap = map[string]reflect.Type{}
		for k, t := range tm {
			if t.Kind() == reflect.Struct {
				o.TypMap[k] = t
			}
		}
		o.Stage = "encode"
		o.Wire, o.EncErr = hessian.ToBytes(v, nil)
		if o.EncErr != nil {
			return
		}
		o.Stage = "decode"
		o.Dec, o.DecErr = hessian.ToObject(o.Wire, o.TypMap)
	})
	o.Panic = pi
	return
}

func hexClip(b []byte) string {
	if len(b) > 96 {
		return fmt.Sprintf("%x...(%d bytes)", b[:96], len(b))
	}
	return fmt.Sprintf("%x", b)
}

// refParse parses emitted bytes with the reference decoder.
func refParse(b []byte) (*hspec.Value, *hspec.Parser, error) {
	return hspec.Parse(b)
}

func parseErrClass(err error) string {
	if pe, ok := err.(*hspec.ParseError); ok {
		return "wire:" + pe.Class
	}
	return "wire:error"
}

// nopJournal is used when env.Journal is unset.
func (e *Env) J(idx, sub int) {
	if e.Journal != nil {
		e.Journal(idx, sub)
	}
}

// subRange returns the loop bounds of a batch honouring resume (From) and replay (Sub).
func subRange(c Case) (int, int) {
	if c.Sub >= 0 {
		return c.Sub, c.Sub + 1
	}
	return c.From, c.Count
}

func hspecHx(s string) []byte { return hspec.Hx(s) }

// bulkValues: values whose multi-octet scalars cross every alignment of the 4096-byte
// buffer that the one-shot decode entry points put in front of the input, and long lists
// of such scalars (a decoder that issues a bare Read instead of ReadFull only fails there).
func bulkValues(seed int64, which string) []interface{} {
	r := rand.New(rand.NewSource(seed))
	var out []interface{}
	for pad := 4070; pad <= 4100; pad++ {
		out = append(out, &zoo.PadThen{Pad: strings.Repeat("p", pad), L: int64(r.Uint64()) | 1<<50, D: r.NormFloat64() * 1e-3, T: time.Unix(r.Int63n(1<<31), (1+r.Int63n(998))*1e6), I: int32(r.Uint32()) | 1<<28, F: float32(r.NormFloat64()), Tail: "tail"})
	}
	switch which {
	case "int":
		l := make([]int64, 1200)
		i := make([]int32, 1500)
		for k := range l {
			l[k] = int64(r.Uint64()) | 1<<40
		}
		for k := range i {
			i[k] = int32(r.Uint32()) | 1<<27
		}
		out = append(out, &zoo.SlInt64{V: l}, &zoo.SlInt32{V: i}, l, i)
	case "double":
		d := make([]float64, 1200)
		f := make([]float32, 1500)
		for k := range d {
			d[k] = r.NormFloat64() * 1e-5
			if k%3 == 0 {
				d[k] = float64(r.Intn(60000) - 30000)
			}
		}
		for k := range f {
			f[k] = float32(r.NormFloat64())
		}
		out = append(out, &zoo.SlF64{V: d}, &zoo.SlF32{V: f}, d)
	case "time":
		t := make([]time.Time, 1200)
		for k := range t {
			t[k] = time.Unix(r.Int63n(1<<33)-1<<32, (1+r.Int63n(998))*1e6)
			if k%97 == 5 || k == 1100 || k == 1199 {
				t[k] = time.Time{} // zero timestamps (written as null) inside a list longer than 1024
			}
		}
		out = append(out, &zoo.SlTime{V: t}, &zoo.MpStrTime{M: map[string]time.Time{"a": t[0], "b": t[1]}})
	case "string":
		s := make([]string, 600)
		for k := range s {
			s[k] = strings.Repeat("世", 1+r.Intn(12)) + "x"
		}
		b := make([][]byte, 400)
		for k := range b {
			b[k] = make([]byte, 1+r.Intn(30))
			r.Read(b[k])
		}
		out = append(out, &zoo.SlStr{V: s}, &zoo.SlBin{V: b})
	}
	return out
}

// bulkCheck round-trips the bulk values (one-shot entry points, and a streaming decoder fed
// a few bytes per Read) and reports any difference.
func bulkCheck(env *Env, res *Result, c Case, which string) {
	vals := bulkValues(c.Seed, which)
	lo, hi := 0, len(vals)
	if c.Sub >= 0 {
		lo, hi = c.Sub, c.Sub+1
	}
	for j := lo; j < hi && j < len(vals); j++ {
		v := vals[j]
		res.Evals++
		res.NT = append(res.NT, Hash64(fmt.Sprintf("bulk|%s|%d|%d", which, c.Seed, j)))
		cc := c
		cc.Sub = j
		feats := []string{"bulk", "crosses-4096-byte-buffer"}
		o := roundTrip(v)
		viol := func(class, detail string) {
			env.Viol(res, Violation{Class: class, Features: feats, Detail: fmt.Sprintf("%T (%d wire bytes): %s", v, len(o.Wire), detail), Case: cc})
		}
		switch {
		case o.Panic != nil:
			viol(o.Panic.Class, o.Stage+" panic "+o.Panic.Msg)
			continue
		case o.EncErr != nil:
			viol("enc-error", o.EncErr.Error())
			continue
		case o.DecErr != nil:
			viol("dec-error", o.DecErr.Error())
			continue
		}
		if d := zoo.Equiv(v, o.Dec, zoo.EquivOpts{}); d != "" {
			viol("mismatch:bulk", d)
			continue
		}
		// the same bytes through a streaming decoder whose reader delivers 7 bytes per Read
		rd := mon.NewReader(o.Wire)
		rd.Chunk = 7
		var out interface{}
		var err error
		pi, _ := Guard(func() { out, err = hessian.NewDecoder(rd, o.TypMap).ReadObject() })
		switch {
		case pi != nil:
			viol(pi.Class, "short-read stream: panic "+pi.Msg)
		case err != nil:
			viol("dec-error", "short-read stream: "+err.Error())
		default:
			if d := zoo.Equiv(v, out, zoo.EquivOpts{}); d != "" {
				viol("mismatch:bulk", "short-read stream: "+d)
			}
		}
		res.Count("bulk_values_crossing_buffer_boundaries", 1)
	}
}
