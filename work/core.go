// Package work holds the per-property workloads, their online oracles and the
// parent/worker runner (DESIGN.md 1).
package work

import (
	"encoding/json"
	"fmt"
	"hash/fnv"
	"os"
	"regexp"
	"runtime"
	"sort"
	"strings"

	hessian "github.com/vogo/gohessian"

	"verif/mon"
)

// Case is a self-contained, replayable descriptor of one case or one batch of
// sub-cases (Count > 0; sub-case j uses the sub-seed Mix(Seed, j)).
type Case struct {
	Idx   int      `json:"idx"`
	Kind  string   `json:"kind"`
	Type  string   `json:"type,omitempty"`
	Seed  int64    `json:"seed,omitempty"`
	Count int      `json:"count,omitempty"`
	Sub   int      `json:"sub"` // -1 = whole batch; >=0 = only this sub-case (replay)
	N     int      `json:"n,omitempty"`
	M     int      `json:"m,omitempty"`
	K     int      `json:"k,omitempty"`
	A     int64    `json:"a,omitempty"`
	B     int64    `json:"b,omitempty"`
	S     string   `json:"s,omitempty"`
	Vec   []int    `json:"vec,omitempty"`
	Opt   []string `json:"opt,omitempty"`
	From  int      `json:"-"` // first sub-case to run (resume after a fatal death)
}

func (c Case) HasOpt(o string) bool {
	for _, x := range c.Opt {
		if x == o {
			return true
		}
	}
	return false
}

// Violation is one refuting observation.
type Violation struct {
	Class    string   `json:"class"`    // failure class (enc-error, dec-error, panic:<fn>|<msg>, mismatch:<what>, wire:<class>, fatal:<kind>, budget:<which>, silent-success ...)
	Features []string `json:"features"` // features of the input
	Detail   string   `json:"detail"`
	Case     Case     `json:"case"` // replayable descriptor (Sub set)
	Input    string   `json:"input,omitempty"`
	KF       string   `json:"kf,omitempty"` // id of the open known finding that explains it
}

// Result is what a worker reports for one Case.
type Result struct {
	Idx          int              `json:"idx"`
	Evals        int64            `json:"evals"`
	NT           []uint64         `json:"nt,omitempty"`      // hashes of non-trivial sub-cases (parent de-duplicates)
	NTCount      int64            `json:"ntcount,omitempty"` // non-trivial sub-cases distinct by construction
	Viol         []Violation      `json:"viol,omitempty"`
	ViolDropped  int64            `json:"viol_dropped,omitempty"`
	Inconclusive []string         `json:"inconclusive,omitempty"`
	Obs          map[string]int64 `json:"obs,omitempty"`     // summed counters
	ObsMax       map[string]int64 `json:"obs_max,omitempty"` // max-merged gauges
	Samples      []interface{}    `json:"samples,omitempty"`
	Skipped      int64            `json:"skipped,omitempty"`
	nviol        int
}

func (r *Result) Count(k string, d int64) {
	if r.Obs == nil {
		r.Obs = map[string]int64{}
	}
	r.Obs[k] += d
}

func (r *Result) Max(k string, v int64) {
	if r.ObsMax == nil {
		r.ObsMax = map[string]int64{}
	}
	if v > r.ObsMax[k] {
		r.ObsMax[k] = v
	}
}

const maxViolPerCase = 40

func (r *Result) Sample(s interface{}) {
	if len(r.Samples) < 2 {
		r.Samples = append(r.Samples, s)
	}
}

// Env is what a workload sees inside the worker.
type Env struct {
	Tier string
	Seed int64
	KF   *KnownFindings
	// Journal is called before each sub-case that may kill the process.
	Journal func(idx, sub int)
	Race    bool
	Replay  bool
	report  func(Violation)
}

// Avoid reports whether generators must keep a feature out of the main stream
// because an open known finding lists it.
func (e *Env) Avoid(prop, feature string) bool {
	return e.KF != nil && e.KF.OpenFeature(prop, feature)
}

// Workload is one property's machinery.
type Workload interface {
	ID() string
	Level() string
	Rule() string
	// Cases returns the deterministic case list for (tier, seed).
	Cases(tier string, seed int64, kf *KnownFindings) []Case
	// Run executes one case in the worker.
	Run(c Case, env *Env) Result
}

// Optional knobs a workload may implement.
type (
	NeedsRace interface{ NeedsRace(tier string) bool }
	ProcOpts  interface{ ProcOpts() Proc }
	Finisher  interface {
		// Finish lets a workload post-process merged observations (parent side).
		Finish(agg *Aggregate)
	}
	Assumer interface{ Assumptions() []string }
)

// Proc describes how worker processes of a workload are run.
type Proc struct {
	RlimitAS   uint64  // bytes; 0 = none
	MaxStack   int     // bytes; 0 = runtime default
	Workers    int     // 0 = default (16)
	StallSec   int     // parent watchdog: seconds without journal progress (0 = 600)
	StallCPU   float64 // when the watchdog fires and the worker used at least this many CPU-seconds inside the one case: violation (did not return), not inconclusive
	GOMAXPROCS int
}

var registry = map[string]Workload{}

func Register(w Workload) { registry[w.ID()] = w }

func Get(id string) (Workload, bool) { w, ok := registry[id]; return w, ok }

func IDs() []string {
	var ids []string
	for k := range registry {
		ids = append(ids, k)
	}
	sort.Strings(ids)
	return ids
}

// Mix derives a sub-seed.
func Mix(seed int64, j int) int64 {
	x := uint64(seed)*0x9e3779b97f4a7c15 + uint64(j)*0xbf58476d1ce4e5b9 + 0x94d049bb133111eb
	x ^= x >> 30
	x *= 0xbf58476d1ce4e5b9
	x ^= x >> 27
	x *= 0x94d049bb133111eb
	x ^= x >> 31
	return int64(x & 0x7fffffffffffffff)
}

func Hash64(s string) uint64 {
	h := fnv.New64a()
	h.Write([]byte(s))
	return h.Sum64()
}

// ---------------------------------------------------------------- panics

type PanicInfo struct {
	Class string // "<function>|<message class>"
	Msg   string
}

var (
	reHex  = regexp.MustCompile(`0x[0-9a-fA-F]+`)
	reNum  = regexp.MustCompile(`[0-9]+`)
	reWS   = regexp.MustCompile(`\s+`)
	reAddr = regexp.MustCompile(`\(0x[0-9a-fA-F]+[^)]*\)`)
)

// MsgClass strips numbers and addresses from a message.
func MsgClass(m string) string {
	m = reAddr.ReplaceAllString(m, "()")
	m = reHex.ReplaceAllString(m, "#")
	m = reNum.ReplaceAllString(m, "#")
	m = reWS.ReplaceAllString(m, " ")
	if len(m) > 70 {
		m = m[:70]
	}
	return m
}

// MaskErr masks addresses/numbers in error messages so that two runs compare equal.
func MaskErr(err error) string {
	if err == nil {
		return ""
	}
	return MsgClass(err.Error())
}

// Guard runs f; a recoverable panic is classified by the top-most frame
// inside the library.  BudgetExceeded sentinels of the metered reader are
// reported separately.
func Guard(f func()) (pi *PanicInfo, budget *mon.BudgetExceeded) {
	defer func() {
		if r := recover(); r != nil {
			if b, ok := r.(mon.BudgetExceeded); ok {
				budget = &b
				return
			}
			msg := fmt.Sprint(r)
			fn := "?"
			pcs := make([]uintptr, 64)
			n := runtime.Callers(2, pcs)
			frames := runtime.CallersFrames(pcs[:n])
			for {
				fr, more := frames.Next()
				if strings.Contains(fr.Function, "vogo/gohessian.") {
					fn = fr.Function[strings.LastIndex(fr.Function, "gohessian.")+len("gohessian."):]
					break
				}
				if !more {
					break
				}
			}
			pi = &PanicInfo{Class: "panic:" + fn + "|" + MsgClass(msg), Msg: msg}
		}
	}()
	f()
	return nil, nil
}

// ---------------------------------------------------------------- logger

type nopLogger struct{}

func (nopLogger) Info(...interface{})           {}
func (nopLogger) Warn(...interface{})           {}
func (nopLogger) Error(...interface{})          {}
func (nopLogger) Debug(...interface{})          {}
func (nopLogger) Infof(string, ...interface{})  {}
func (nopLogger) Warnf(string, ...interface{})  {}
func (nopLogger) Errorf(string, ...interface{}) {}
func (nopLogger) Debugf(string, ...interface{}) {}
func (nopLogger) Printf(string, ...interface{}) {}
func (nopLogger) Println(...interface{})        {}

// SilenceLibrary replaces the library's logger by a no-op (once, before any workload).
func SilenceLibrary() { hessian.SetLogger(nopLogger{}) }

// ---------------------------------------------------------------- JSON helpers

func WriteJSON(path string, v interface{}) error {
	b, err := json.MarshalIndent(v, "", " ")
	if err != nil {
		return err
	}
	tmp := path + ".tmp"
	if err := os.WriteFile(tmp, append(b, '\n'), 0o644); err != nil {
		return err
	}
	return os.Rename(tmp, path)
}
