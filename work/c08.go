package work

import (
	"bytes"
	"encoding/binary"
	"fmt"
	"math"
	"math/rand"
	"verif/mon"

	hessian "github.com/vogo/gohessian"

	"verif/hspec"
	"verif/zoo"
)

// C08 — doubles exact and in the shortest exact form.
type c08 struct{}

func init() { Register(c08{}) }

func (c08) ID() string    { return "C08" }
func (c08) Level() string { return "exploration" }
func (c08) Rule() string {
	return "float32 bit patterns widened to float64 in contiguous ranges (thorough: all 2^32), all integers in [-70000,70000], +-2^k and Nextafter neighbours for every exponent, subnormals, infinities, NaNs, random 64-bit patterns; float32/float64 struct fields, []float32, []float64, map values. Oracle: encode succeeds, decoded == input (NaN->NaN, -0->0), emitted bytes == the shortest exact form by an independent table (NaN: 5 or 9 octets, -0: 1 or 5 accepted), reference decoder reads the same number. Non-trivial = not 0/1; ranges distinct by construction."
}
func (c08) Exhaustive(tier string) (bool, string) {
	return tier == "thorough", "all 2^32 float32 bit patterns widened to float64 (streaming entry points)"
}

func (c08) Cases(tier string, seed int64, kf *KnownFindings) []Case {
	var cs []Case
	add := func(c Case) { c.Sub = -1; cs = append(cs, c) }
	add(Case{Kind: "table"})
	add(Case{Kind: "bulk", Seed: Mix(seed, 4243)})
	add(Case{Kind: "mapkeys"})
	add(Case{Kind: "sameclass"})
	add(Case{Kind: "f32edge", Seed: Mix(seed, 4246), Count: 400})
	if tier == "quick" {
		add(Case{Kind: "ints", A: -70000, B: -35000})
		add(Case{Kind: "ints", A: -35000, B: 0})
		add(Case{Kind: "ints", A: 0, B: 35000})
		add(Case{Kind: "ints", A: 35000, B: 70001})
		r := rand.New(rand.NewSource(seed))
		for i := 0; i < 40; i++ {
			start := int64(r.Uint32())
			add(Case{Kind: "f32range", A: start, B: start + 4096})
		}
		for i := 0; i < 16; i++ {
			add(Case{Kind: "rand64", Seed: Mix(seed, i), Count: 5000})
		}
		for i := 0; i < 16; i++ {
			add(Case{Kind: "fields", Seed: Mix(seed, 500+i), Count: 150})
		}
	} else {
		for a := int64(-70000); a < 70001; a += 10000 {
			add(Case{Kind: "ints", A: a, B: a + 10000})
		}
		const step = 1 << 22
		for a := int64(0); a < 1<<32; a += step {
			add(Case{Kind: "f32range", A: a, B: a + step})
		}
		for i := 0; i < 160; i++ {
			add(Case{Kind: "rand64", Seed: Mix(seed, i), Count: 100000})
		}
		for i := 0; i < 64; i++ {
			add(Case{Kind: "fields", Seed: Mix(seed, 500+i), Count: 2000})
		}
	}
	return cs
}

type mpNestF64 struct {
	M map[string]map[float64]string
	L []map[float64]string
	P map[float64]*zoo.Inner
}

// two Go types that a caller's name map sends to ONE class name (same field names, other widths)
type AltF32 struct {
	V float32
	W float32
}
type AltF64 struct {
	V float64
	W float64
}

// specDouble: the shortest exact form per the document; alt is a second accepted rendering ("" if none).
func specDouble(f float64) (want []byte, alts [][]byte) {
	bits := math.Float64bits(f)
	full := binary.BigEndian.AppendUint64([]byte{'D'}, bits)
	f32 := func() []byte { return binary.BigEndian.AppendUint32([]byte{0x5f}, math.Float32bits(float32(f))) }
	if math.IsNaN(f) {
		// the statement does not pin NaN's form: 5 (any float32 NaN) or 9 octets
		return full, [][]byte{nil} // nil alt = "any x5f NaN payload", handled by caller
	}
	if f == 0 {
		if math.Signbit(f) {
			return []byte{0x5b}, [][]byte{f32(), full} // -0: 1 or 5 (or exact 9) accepted
		}
		return []byte{0x5b}, nil
	}
	if f == 1 {
		return []byte{0x5c}, nil
	}
	if f == math.Trunc(f) && f >= -128 && f <= 127 {
		return []byte{0x5d, byte(int8(f))}, nil
	}
	if f == math.Trunc(f) && f >= -32768 && f <= 32767 {
		i := int16(f)
		return []byte{0x5e, byte(i >> 8), byte(i)}, nil
	}
	if float64(float32(f)) == f {
		return f32(), nil
	}
	return full, nil
}

func doubleOK(f float64, wire []byte) bool {
	want, alts := specDouble(f)
	if bytes.Equal(wire, want) {
		return true
	}
	for _, a := range alts {
		if a == nil {
			// NaN in 5 octets
			if len(wire) == 5 && wire[0] == 0x5f && math.IsNaN(float64(math.Float32frombits(binary.BigEndian.Uint32(wire[1:])))) {
				return true
			}
			continue
		}
		if bytes.Equal(wire, a) {
			return true
		}
	}
	return false
}

func sameFloat(a, b float64) bool { return a == b || (math.IsNaN(a) && math.IsNaN(b)) }

func doubleFeatures(f float64) []string {
	feats := []string{"float64"}
	switch {
	case math.IsNaN(f):
		feats = append(feats, "double.nan")
	case math.IsInf(f, 0):
		feats = append(feats, "double.inf")
	case f == math.Trunc(f) && f != 0 && f != 1:
		feats = append(feats, "double.integral")
		if math.Abs(f) >= 1<<63 {
			feats = append(feats, "double.integral.huge")
		}
	}
	return feats
}

// c08Shared: the same float list in two fields (raw and filtered samples that have not diverged yet)
type c08Shared struct {
	Raw      []float64
	Filtered []float64
	R32      []float32
	F32      []float32
	N        int32
}

func (c08) Run(c Case, env *Env) Result {
	var res Result
	ss := newScalarStream()
	check := func(f float64, sub int, oneShot bool) {
		res.Evals++
		cc := c
		cc.Sub = sub
		feats := doubleFeatures(f)
		viol := func(class, detail string) {
			env.Viol(&res, Violation{Class: class, Features: feats, Detail: fmt.Sprintf("float64 %v (bits %016x): %s", f, math.Float64bits(f), detail), Case: cc})
		}
		pi, _ := Guard(func() {
			wire, out, e1, e2, consumed := ss.rt(f)
			if e1 != nil {
				viol("enc-error", e1.Error())
				return
			}
			if e2 != nil {
				viol("dec-error", fmt.Sprintf("(%x) %v", wire, e2))
				return
			}
			if got, ok := out.(float64); !ok || !sameFloat(got, f) {
				viol("mismatch:value", fmt.Sprintf("(%x) decoded as %T %v", wire, out, out))
			}
			if consumed != len(wire) {
				viol("framing", fmt.Sprintf("%d bytes emitted, %d consumed", len(wire), consumed))
			}
			if !doubleOK(f, wire) {
				want, _ := specDouble(f)
				viol("form:not-spec", fmt.Sprintf("emitted %x, shortest exact form is %x", wire, want))
			}
			if rv, _, err := hspec.Parse(wire); err != nil || rv.Kind != hspec.KDouble || !sameFloat(rv.F, f) {
				viol("wire:refdec", fmt.Sprintf("refdec(%x) disagrees: %v", wire, err))
			}
			if oneShot {
				b, err := hessian.ToBytes(f, nil)
				if err != nil {
					viol("enc-error", "ToBytes: "+err.Error())
					return
				}
				o, err := hessian.ToObject(b, nil)
				if got, ok := o.(float64); err != nil || !ok || !sameFloat(got, f) {
					viol("mismatch:value", fmt.Sprintf("ToObject(%x) = %T %v, %v", b, o, o, err))
				}
			}
		})
		if pi != nil {
			viol(pi.Class, "panic "+pi.Msg)
		}
	}
	switch c.Kind {
	case "table":
		seen := map[uint64]bool{}
		one := func(f float64) {
			if !seen[math.Float64bits(f)] {
				seen[math.Float64bits(f)] = true
				check(f, 0, true)
			}
		}
		for _, f := range zoo.F64Table {
			one(f)
			one(-f)
			one(math.Nextafter(f, math.Inf(1)))
			one(math.Nextafter(f, math.Inf(-1)))
		}
		for k := -1074; k <= 1023; k++ {
			p := math.Ldexp(1, k)
			for _, f := range []float64{p, -p, math.Nextafter(p, 0), math.Nextafter(p, math.Inf(1)), -math.Nextafter(p, 0), p + 1, p - 1, 1 - p} {
				one(f)
			}
		}
		for _, f := range []float64{math.NaN(), math.Float64frombits(0x7ff0000000000001), math.Float64frombits(0xfff8000000000123), math.Copysign(0, -1),
			math.SmallestNonzeroFloat64, -math.SmallestNonzeroFloat64, math.SmallestNonzeroFloat32, math.MaxFloat32, -math.MaxFloat32, math.MaxFloat64, -math.MaxFloat64,
			127.5, -128.5, 32767.5, 1 << 53, 1<<53 + 2, -(1 << 53), 1 << 63, -(1 << 63), 1e19, -1e19, 1e300, 123456789, 2147483648, -2147483649, 16777217} {
			one(f)
		}
		res.NTCount = int64(len(seen)) - 2
		res.Sample(map[string]interface{}{"kind": "double boundary table", "values": len(seen), "example": "2.0 -> 5d02, 32768.0 -> 5f47000000, 0.1 -> D..."})
	case "ints":
		for x := c.A; x < c.B; x++ {
			if c.Sub >= 0 && x != c.A+int64(c.Sub) {
				continue
			}
			check(float64(x), int(x-c.A), x%97 == 0)
		}
		res.NTCount = c.B - c.A - 2
		{
			f := float64(c.A)
			w, out, _, _, k := ss.rt(f)
			res.Sample(map[string]interface{}{"kind": "integral doubles", "from": c.A, "to": c.B, "first": map[string]interface{}{"value": f, "wire": fmt.Sprintf("%x", w), "decoded": fmt.Sprintf("%T %v", out, out), "bytes_consumed": k}})
		}
	case "f32range":
		n := int64(0)
		for x := c.A; x < c.B && x < 1<<32; x++ {
			if c.Sub >= 0 && x != c.A+int64(c.Sub) {
				continue
			}
			f := float64(math.Float32frombits(uint32(x)))
			check(f, int(x-c.A), x%4093 == 0)
			n++
		}
		res.NTCount = n
		res.Count("float32_patterns", n)
		{
			f := float64(math.Float32frombits(uint32(c.A)))
			w, out, _, _, k := ss.rt(f)
			res.Sample(map[string]interface{}{"kind": "float32 bit patterns widened", "from": fmt.Sprintf("%08x", c.A), "to": fmt.Sprintf("%08x", c.B), "first": map[string]interface{}{"value": fmt.Sprint(f), "wire": fmt.Sprintf("%x", w), "decoded": fmt.Sprintf("%T %v", out, out), "bytes_consumed": k}})
		}
	case "rand64":
		r := rand.New(rand.NewSource(c.Seed))
		for j := 0; j < c.Count; j++ {
			f := math.Float64frombits(r.Uint64())
			if j%4 == 1 {
				f = r.NormFloat64() * math.Pow(10, float64(r.Intn(60)-30))
			}
			if j%4 == 2 {
				f = math.Trunc(r.NormFloat64() * math.Pow(10, float64(r.Intn(25))))
			}
			if c.Sub >= 0 && j != c.Sub {
				continue
			}
			check(f, j, j%53 == 0)
		}
		res.NTCount = int64(c.Count)
		res.Sample(map[string]interface{}{"kind": "random 64-bit patterns", "seed": c.Seed, "count": c.Count})
	case "f32edge":
		// float64 values whose low 29 mantissa bits are clear (so they LOOK like float32) across the
		// exponents where float32 turns subnormal, overflows or underflows: only some are exact float32
		r := rand.New(rand.NewSource(c.Seed))
		n := 0
		for e := -156; e <= -120; e++ {
			for k := 0; k < c.Count; k++ {
				m := uint64(r.Uint32()>>9) << 29 // 23 significant mantissa bits
				if k < 8 {
					m = uint64(k) << 49 // 1.0, 1.125, 1.25, ... 1.875 x 2^e
				}
				f := math.Float64frombits(uint64(1023+e)<<52 | m)
				if c.Sub < 0 || c.Sub == n {
					check(f, n, false)
					check(-f, n, false)
				}
				n++
			}
		}
		for e := 126; e <= 129; e++ {
			for k := 0; k < c.Count; k++ {
				m := uint64(r.Uint32()>>9) << 29
				f := math.Float64frombits(uint64(1023+e)<<52 | m)
				if c.Sub < 0 || c.Sub == n {
					check(f, n, false)
				}
				n++
			}
		}
		res.NTCount = int64(n)
		res.Sample(map[string]interface{}{"kind": "float64 values with 23-bit mantissas around the float32 subnormal / overflow boundaries", "values": n, "example": "1.5 x 2^-149 (looks like a float32, is not one)"})
	case "sameclass":
		// an instance with float32 fields first, then an instance with float64 fields of the same class name:
		// each number must be written as the number it is, whatever the first instance of the class looked like
		nm := map[string]string{"AltF32": "shared.Floats", "AltF64": "shared.Floats"}
		for j, f := range []float64{0.1, 1e300, math.Pi, 16777217, -2.5e-7, 1.0000000001} {
			for order := 0; order < 2; order++ {
				res.Evals++
				res.NT = append(res.NT, Hash64(fmt.Sprintf("sameclass|%d|%x", order, math.Float64bits(f))))
				cc := c
				cc.Sub = j*2 + order
				a32, a64 := &AltF32{V: 1.5, W: 0.25}, &AltF64{V: f, W: -f}
				msg := []interface{}{a32, a64, a32, a64}
				if order == 1 {
					msg = []interface{}{a64, a32, a64}
				}
				var b []byte
				var err error
				pi, _ := Guard(func() { b, err = hessian.ToBytes(msg, copyNames(nm)) })
				feats := append(doubleFeatures(f), "two-types-one-class-name")
				viol := func(class, detail string) {
					env.Viol(&res, Violation{Class: class, Features: feats, Detail: fmt.Sprintf("float64 %v in the second of two Go types under one class name: %s", f, detail), Case: cc})
				}
				if pi != nil || err != nil {
					viol("enc-error", fmt.Sprint(pi, err))
					continue
				}
				rv, _, perr := hspec.Parse(b)
				if perr != nil {
					viol(parseErrClass(perr), fmt.Sprintf("(%s) %v", hexClip(b), perr))
					continue
				}
				idx := 1 - order
				if len(rv.Elems) <= idx || rv.Elems[idx].Deref().Kind != hspec.KObject || len(rv.Elems[idx].Deref().Elems) != 2 {
					viol("wire:shape", hexClip(b))
					continue
				}
				o := rv.Elems[idx].Deref()
				if o.Elems[0].Kind != hspec.KDouble || !sameFloat(o.Elems[0].F, f) || !sameFloat(o.Elems[1].F, -f) {
					viol("wire:value", fmt.Sprintf("(%s) the instance carries %s", hexClip(b), hspec.ShortString(o)))
				}
			}
		}
		// float lists of both widths behind a typed map (list type numbering), and a long list of a NAMED
		// float64 type (the element conversion of long lists)
		for j, f := range []float64{0.1, 1e300, math.Pi, -2.5e-7} {
			long := make([]zoo.Celsius, 1100)
			for i := range long {
				long[i] = zoo.Celsius(f * float64(i+1))
			}
			for k, v := range []interface{}{
				&zoo.MapThenFloats{M: zoo.NamedMap{"k": 1}, A: []float32{1.5}, B: []float64{f, 0.1}, C: []float64{0.1, f, -f}, D: []float32{2.5, 0.25}},
				&zoo.NamedScalars{C: zoo.Celsius(f), Cs: long},
				&zoo.CaseFloats{Ph: 7.25, PH: float32(f), Vmax: f, VMax: -f / 3, Temp: 0.1},
			} {
				res.Evals++
				res.NT = append(res.NT, Hash64(fmt.Sprintf("lists|%d|%d", j, k)))
				cc := c
				cc.Sub = 1000 + j*3 + k
				o := roundTrip(v)
				feats := append(doubleFeatures(f), []string{"lists-after-typed-map", "long-list-of-named-float64", "case-variant-field-names"}[k])
				switch {
				case o.Panic != nil:
					env.Viol(&res, Violation{Class: o.Panic.Class, Features: feats, Detail: o.Stage + " panic " + o.Panic.Msg, Case: cc})
				case o.EncErr != nil || o.DecErr != nil:
					env.Viol(&res, Violation{Class: "dec-error", Features: feats, Detail: fmt.Sprintf("%T (%s): %v %v", v, hexClip(o.Wire), o.EncErr, o.DecErr), Case: cc})
				default:
					if d := zoo.Equiv(v, o.Dec, zoo.EquivOpts{}); d != "" {
						env.Viol(&res, Violation{Class: "mismatch:value", Features: feats, Detail: fmt.Sprintf("%T: %s (%s)", v, d, hexClip(o.Wire)), Case: cc})
					}
				}
			}
		}
		// one float list in TWO slice fields of one object (the second occurrence is a back-reference), and the
		// same on the second value of a stream whose first value already holds a container
		for j, f := range []float64{0.1, 1e300, math.Pi, -2.5e-7, 16777217} {
			for variant := 0; variant < 3; variant++ {
				res.Evals++
				res.NT = append(res.NT, Hash64(fmt.Sprintf("shared|%d|%d", j, variant)))
				cc := c
				cc.Sub = 2000 + j*3 + variant
				feats := append(doubleFeatures(f), []string{"float-list-shared-by-two-fields", "float-list-shared-by-two-fields@second-stream-value", "float-list-shared-by-two-fields@untyped"}[variant])
				sl := []float64{f, -f, 0.1, f / 3, 1, 0}
				s32 := []float32{float32(f), 0.25, 16777216, -1e-7}
				first := &c08Shared{Raw: []float64{0.25, -0.5}, R32: []float32{1.5}, N: 1}
				v := &c08Shared{Raw: sl, Filtered: sl, R32: s32, F32: s32, N: 2}
				tm, nm := hessian.ExtractTypeNameMap(v)
				if variant == 2 {
					nm = map[string]string{"c08Shared": "c08Shared"}
				}
				var outs []interface{}
				var err error
				w := &mon.CountingWriter{}
				pi, _ := Guard(func() {
					ser := hessian.NewSerializer(tm, nm)
					if variant == 1 {
						if err = ser.WriteTo(w, first); err == nil {
							err = ser.Write(v)
						}
					} else {
						err = ser.WriteTo(w, v)
					}
					if err != nil {
						return
					}
					rs := hessian.NewSerializer(tm, nm)
					var o interface{}
					o, err = rs.ReadFrom(mon.NewReader(w.Buf.Bytes()))
					outs = append(outs, o)
					if variant == 1 && err == nil {
						o, err = rs.Read()
						outs = append(outs, o)
					}
				})
				switch {
				case pi != nil:
					env.Viol(&res, Violation{Class: pi.Class, Features: feats, Detail: "panic " + pi.Msg, Case: cc})
				case err != nil:
					env.Viol(&res, Violation{Class: "dec-error", Features: feats, Detail: fmt.Sprintf("(%s): %v", hexClip(w.Buf.Bytes()), err), Case: cc})
				default:
					if d := zoo.Equiv(v, outs[len(outs)-1], zoo.EquivOpts{}); d != "" {
						env.Viol(&res, Violation{Class: "mismatch:value", Features: feats, Detail: fmt.Sprintf("%s (%s)", d, hexClip(w.Buf.Bytes())), Case: cc})
					} else if variant == 1 {
						if d := zoo.Equiv(first, outs[0], zoo.EquivOpts{}); d != "" {
							env.Viol(&res, Violation{Class: "mismatch:value", Features: feats, Detail: fmt.Sprintf("first value of the stream: %s", d), Case: cc})
						}
					}
				}
			}
		}
	case "mapkeys":
		// float64 map keys, NaN included: a NaN key can only be reached by iteration
		for j, f := range []float64{math.NaN(), math.Inf(1), math.Inf(-1), 1.5, -2, 0.1, 1e300, math.SmallestNonzeroFloat64} {
			res.Evals++
			res.NT = append(res.NT, Hash64(fmt.Sprintf("mapkey|%x", math.Float64bits(f))))
			cc := c
			cc.Sub = j
			o := roundTrip(&zoo.MpF64Str{M: map[float64]string{f: "v", 7: "seven"}})
			feats := append(doubleFeatures(f), "pos=f64mapkey")
			viol := func(class, detail string) {
				env.Viol(&res, Violation{Class: class, Features: feats, Detail: fmt.Sprintf("float64 map key %v: %s", f, detail), Case: cc})
			}
			switch {
			case o.Panic != nil:
				viol(o.Panic.Class, o.Stage+" panic "+o.Panic.Msg)
			case o.EncErr != nil:
				viol("enc-error", o.EncErr.Error())
			case o.DecErr != nil:
				viol("dec-error", fmt.Sprintf("(%s) %v", hexClip(o.Wire), o.DecErr))
			default:
				s, ok := o.Dec.(*zoo.MpF64Str)
				found := false
				if ok && len(s.M) == 2 {
					for k, v := range s.M {
						found = found || (sameFloat(k, f) && v == "v")
					}
				}
				if !found {
					viol("mismatch:value", fmt.Sprintf("(%s) decoded as %v", hexClip(o.Wire), o.Dec))
				}
			}
		}
		// NaN keys in maps that are converted entry by entry (nested, inside a list) and in front of a
		// struct type that extraction only meets behind that key
		for j, v := range []interface{}{
			&mpNestF64{M: map[string]map[float64]string{"o": {math.NaN(): "n", 1: "one"}}, L: []map[float64]string{{math.NaN(): "l"}}},
			&mpNestF64{P: map[float64]*zoo.Inner{math.NaN(): {A: 7, S: "behind NaN"}}},
		} {
			res.Evals++
			res.NT = append(res.NT, Hash64(fmt.Sprintf("nan-nested|%d", j)))
			cc := c
			cc.Sub = 100 + j
			o := roundTrip(v)
			feats := []string{"double.nan", "pos=nested-map-key"}
			switch {
			case o.Panic != nil:
				env.Viol(&res, Violation{Class: o.Panic.Class, Features: feats, Detail: o.Stage + " panic " + o.Panic.Msg, Case: cc})
			case o.EncErr != nil || o.DecErr != nil:
				env.Viol(&res, Violation{Class: "dec-error", Features: feats, Detail: fmt.Sprintf("NaN key in a nested map (%s): %v %v", hexClip(o.Wire), o.EncErr, o.DecErr), Case: cc})
			default:
				d, ok := o.Dec.(*mpNestF64)
				good := ok
				if ok && j == 0 {
					good = len(d.M["o"]) == 2 && d.M["o"][1] == "one" && len(d.L) == 1 && len(d.L[0]) == 1
				}
				if ok && j == 1 {
					good = len(d.P) == 1
					for _, in := range d.P {
						good = good && in != nil && in.A == 7 && in.S == "behind NaN"
					}
				}
				if !good {
					env.Viol(&res, Violation{Class: "mismatch:value", Features: feats, Detail: fmt.Sprintf("NaN key in a nested map (%s) decoded as %+v", hexClip(o.Wire), o.Dec), Case: cc})
				}
			}
		}
		res.Sample(map[string]interface{}{"kind": "float64 map keys", "keys": "NaN, +-Inf, 1.5, -2, 0.1, 1e300, 4.9e-324"})
	case "fields":
		c08fields(c, env, &res)
	case "bulk":
		bulkCheck(env, &res, c, "double")
		res.Sample(map[string]interface{}{"kind": "bulk", "what": "long lists of doubles/floats and scalars behind 4070..4100 bytes of padding"})
	}
	return res
}

func c08fields(c Case, env *Env, res *Result) {
	r := rand.New(rand.NewSource(c.Seed))
	g := zoo.NewGen(c.Seed, zoo.DefaultCfg())
	for j := 0; j < c.Count; j++ {
		f := g.R.NormFloat64()
		switch r.Intn(6) {
		case 5:
			f = []float64{math.NaN(), math.Inf(1), math.Inf(-1), math.Copysign(0, -1), math.MaxFloat32, math.SmallestNonzeroFloat32}[r.Intn(6)]
		case 0:
			f = zoo.F64Table[r.Intn(len(zoo.F64Table))]
		case 1:
			f = float64(r.Intn(140000) - 70000)
		case 2:
			f = math.Float64frombits(r.Uint64())
		case 3:
			f = float64(math.Float32frombits(r.Uint32()))
		}
		pos := []string{"f64field", "f32field", "f64elem", "f32elem", "mapval", "f64mapkey", "namedf64field"}[r.Intn(7)]
		if c.Sub >= 0 && j != c.Sub {
			continue
		}

		f32 := float32(f)
		feats := append(doubleFeatures(f), "pos="+pos)
		cc := c
		cc.Sub = j
		res.Evals++
		res.NT = append(res.NT, Hash64(fmt.Sprintf("%s|%x", pos, math.Float64bits(f))))
		res.Count("pos="+pos, 1)
		viol := func(class, detail string) {
			env.Viol(res, Violation{Class: class, Features: feats, Detail: fmt.Sprintf("float %v at %s: %s", f, pos, detail), Case: cc})
		}
		var val interface{}
		var get func(d interface{}) (float64, bool)
		want := f
		switch pos {
		case "f64field":
			val = &zoo.Scalars{F64: f, S: "x"}
			get = func(d interface{}) (float64, bool) {
				s, ok := d.(*zoo.Scalars)
				if !ok {
					return 0, false
				}
				return s.F64, true
			}
		case "f32field":
			want = float64(f32)
			val = &zoo.Scalars{F32: f32, S: "x"}
			get = func(d interface{}) (float64, bool) {
				s, ok := d.(*zoo.Scalars)
				if !ok {
					return 0, false
				}
				return float64(s.F32), true
			}
		case "f64elem":
			val = &zoo.SlF64{V: []float64{0.5, f, 0.25}}
			get = func(d interface{}) (float64, bool) {
				s, ok := d.(*zoo.SlF64)
				if !ok || len(s.V) != 3 {
					return 0, false
				}
				return s.V[1], true
			}
		case "f32elem":
			want = float64(f32)
			val = &zoo.SlF32{V: []float32{0.5, f32, 0.25}}
			get = func(d interface{}) (float64, bool) {
				s, ok := d.(*zoo.SlF32)
				if !ok || len(s.V) != 3 {
					return 0, false
				}
				return float64(s.V[1]), true
			}
		case "f64mapkey":
			// a float64 map key, NaN included (a NaN key cannot be looked up again, only iterated)
			val = &zoo.MpF64Str{M: map[float64]string{f: "v"}}
			get = func(d interface{}) (float64, bool) {
				s, ok := d.(*zoo.MpF64Str)
				if !ok || len(s.M) != 1 {
					return 0, false
				}
				for k, v := range s.M {
					return k, v == "v"
				}
				return 0, false
			}
		case "namedf64field":
			val = &zoo.NamedScalars{C: zoo.Celsius(f), L: "x"}
			get = func(d interface{}) (float64, bool) {
				s, ok := d.(*zoo.NamedScalars)
				if !ok {
					return 0, false
				}
				return float64(s.C), true
			}
		case "mapval":
			val = map[interface{}]interface{}{"k": f}
			get = func(d interface{}) (float64, bool) {
				m, ok := d.(map[interface{}]interface{})
				if !ok {
					return 0, false
				}
				x, ok := m["k"].(float64)
				return x, ok
			}
		}
		// a double field the receiving type does not have, in each wire form, in front of the float fields:
		// stepping over it must leave the following numbers alone
		if j%5 == 0 {
			res.Count("float_fields_after_an_unknown_double_field", 1)
			gone := []float64{0, 1, 37, -128, 1000, -32768, 12.25, 0.001, 0.1, math.Pi, 1e300}[(j/5)%11]
			tm, _ := hessian.ExtractTypeNameMap(&zoo.Scalars{})
			ob := hspec.Object("Scalars", []string{"gone", "f64", "gone2", "f32", "s"}, hspec.Double(gone), hspec.Double(f), hspec.Double(gone), hspec.Double(float64(f32)), hspec.String("end"))
			rb, _ := hspec.Encode(ob, hspec.Canonical{}, hspec.EncOpts{})
			var dv interface{}
			var derr error
			pi, _ := Guard(func() { dv, derr = hessian.ToObject(rb, tm) })
			sc, _ := dv.(*zoo.Scalars)
			switch {
			case pi != nil:
				viol(pi.Class, "decode of "+hexClip(rb)+" panicked: "+pi.Msg)
			case derr != nil:
				viol("dec-error", fmt.Sprintf("(%s) %v", hexClip(rb), derr))
			case sc == nil:
				viol("mismatch:shape", fmt.Sprintf("(%s) decoded as %T", hexClip(rb), dv))
			case !sameFloat(sc.F64, f) || !sameFloat(float64(sc.F32), float64(f32)) || sc.S != "end":
				viol("mismatch:value", fmt.Sprintf("(%s) with unknown double fields (%v) in front: decoded f64=%v f32=%v s=%q", hexClip(rb), gone, sc.F64, sc.F32, sc.S))
			}
		}
		o := roundTrip(val)
		switch {
		case o.Panic != nil:
			viol(o.Panic.Class, o.Stage+" panic "+o.Panic.Msg)
		case o.EncErr != nil:
			viol("enc-error", o.EncErr.Error())
		case o.DecErr != nil:
			viol("dec-error", fmt.Sprintf("(%s) %v", hexClip(o.Wire), o.DecErr))
		default:
			got, ok := get(o.Dec)
			if !ok {
				viol("mismatch:shape", fmt.Sprintf("(%s) decoded as %T", hexClip(o.Wire), o.Dec))
			} else if !sameFloat(got, want) {
				viol("mismatch:value", fmt.Sprintf("(%s) decoded as %v", hexClip(o.Wire), got))
			}
			// the form on the wire, wherever the number stands: the shortest exact one
			if rv, _, perr := hspec.Parse(o.Wire); perr == nil {
				var leaf *hspec.Value
				switch pos {
				case "f64field", "f32field":
					for i, fn := range rv.Fields {
						if fn == pos[:3] && i < len(rv.Elems) {
							leaf = rv.Elems[i]
						}
					}
				case "f64elem", "f32elem":
					if len(rv.Elems) == 1 && len(rv.Elems[0].Elems) == 3 {
						leaf = rv.Elems[0].Elems[1]
					}
				case "mapval":
					if len(rv.Elems) == 2 {
						leaf = rv.Elems[1]
					}
				}
				if leaf != nil && leaf.Kind == hspec.KDouble && leaf.Ann != nil {
					res.Count("forms_checked_inside_containers", 1)
					if enc := o.Wire[leaf.Ann.Off:leaf.Ann.End]; !doubleOK(want, enc) {
						sw, _ := specDouble(want)
						viol("form:not-spec", fmt.Sprintf("emitted %x, shortest exact form is %x", enc, sw))
					}
				} else {
					res.Count("form_leaf_not_located", 1)
				}
			}
		}
	}
	res.Sample(map[string]interface{}{"kind": "float fields / elements / map values", "seed": c.Seed, "count": c.Count})
}
