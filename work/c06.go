package work

import (
	"fmt"
	"math/rand"
	"reflect"
	"strings"
	"unicode/utf8"

	hessian "github.com/vogo/gohessian"

	"verif/hspec"
	"verif/mon"
	"verif/zoo"
)

// C06 — streaming: n writes read back as the same n values, exact framing.
type c06 struct{}

func init() { Register(c06{}) }

func (c06) ID() string    { return "C06" }
func (c06) Level() string { return "exploration" }
func (c06) Rule() string {
	return "histories of 1..50 mixed zoo values (and of 225..450 small values with nil / empty / back-referenced map fields) (scalars, strings at chunk boundaries, binaries, lists, maps, objects re-using earlier class definitions, the same pointer sent twice, nulls) written to ONE stream through Encoder.WriteObject or Serializer.WriteTo+Write (byte offset recorded after every write by a counting writer) and read back through Decoder.ReadObject or Serializer.ReadFrom+Read, also crossed, from a metered reader WITHOUT read-ahead. Offline checker per history: r_i Equiv w_i, cumulative bytes consumed after r_i == cumulative bytes emitted after w_i (cross-checked against the reference decoder's own framing of the stream), a pointer written twice comes back as one pointer, no internal carrier type (reflect.Value, unexported library types) at top level or nested. Thorough adds all histories of length <= 3 over a 12-value alphabet. Non-trivial = history length >= 2; distinct by history hash."
}
func (c06) ProcOpts() Proc { return Proc{RlimitAS: 4 << 30} }

func (c06) Cases(tier string, seed int64, kf *KnownFindings) []Case {
	var cs []Case
	n, per := 16, 25
	if tier == "thorough" {
		n, per = 200, 500
	}
	for i := 0; i < n; i++ {
		cs = append(cs, Case{Kind: "hist", Seed: Mix(seed, i), Count: per, N: 50, Sub: -1})
	}
	// long histories of small values: whatever a decoder accumulates per value on ONE stream
	// (depth counters, reference slots, class tables) is exercised hundreds of times
	nl := 4
	if tier == "thorough" {
		nl = 40
	}
	cs = append(cs, Case{Kind: "long", Seed: Mix(seed, 7000), Count: nl, N: 450, Sub: -1})
	// fixed histories: ill-formed strings in front of small values (framing only), and slices that
	// travel UNTYPED (name map without list names) first at a generic position, later in a typed field
	cs = append(cs, Case{Kind: "lit", S: "badutf8", Count: 4, Sub: -1})
	cs = append(cs, Case{Kind: "lit", S: "untyped-resent", Count: 4, Sub: -1})
	cs = append(cs, Case{Kind: "lit", S: "untyped-resent-reverse", Count: 4, Sub: -1})
	cs = append(cs, Case{Kind: "lit", S: "named-map-with-containers", Count: 4, Sub: -1})
	cs = append(cs, Case{Kind: "lit", S: "two-names-one-type", Count: 4, Sub: -1})
	cs = append(cs, Case{Kind: "lit", S: "untyped-empty", Count: 4, Sub: -1})
	cs = append(cs, Case{Kind: "lit", S: "skew-then-resent", Count: 4, Sub: -1})
	cs = append(cs, Case{Kind: "lit", S: "ptr-key-map", Count: 4, Sub: -1})
	cs = append(cs, Case{Kind: "lit", S: "many-containers-then-refs", Count: 4, Sub: -1})
	cs = append(cs, Case{Kind: "faultcont", Count: 24, Sub: -1})
	if tier == "thorough" {
		// all histories of length <= 3 over a 12-value alphabet: 12 + 144 + 1728
		for a := 0; a < 12; a++ {
			cs = append(cs, Case{Kind: "alpha", N: a, Count: 1 + 12 + 144, Sub: -1})
		}
	} else {
		cs = append(cs, Case{Kind: "alpha", N: -1, Count: 12 + 144, Sub: -1})
	}
	return cs
}

var c06modes = []string{"Encoder.WriteObject/Decoder.ReadObject", "Serializer.WriteTo+Write/ReadFrom+Read", "Encoder.WriteObject/Serializer.ReadFrom+Read", "Serializer.WriteTo+Write/Decoder.ReadObject"}

// carrier reports an internal carrier type inside a decoded value.
func carrier(v reflect.Value, depth int, seen map[uintptr]bool) string {
	if !v.IsValid() || depth > 30 {
		return ""
	}
	t := v.Type()
	if t.PkgPath() == "reflect" || (strings.HasSuffix(t.PkgPath(), "vogo/gohessian") && t.Name() != "" && t.Name()[0] == '_') ||
		(t.Kind() == reflect.Ptr && strings.HasSuffix(t.Elem().PkgPath(), "vogo/gohessian")) {
		return t.String()
	}
	switch v.Kind() {
	case reflect.Interface:
		if v.IsNil() {
			return ""
		}
		return carrier(v.Elem(), depth+1, seen)
	case reflect.Ptr:
		if v.IsNil() || seen[v.Pointer()] {
			return ""
		}
		seen[v.Pointer()] = true
		return carrier(v.Elem(), depth+1, seen)
	case reflect.Slice, reflect.Array:
		if t.Elem().Kind() == reflect.Uint8 {
			return ""
		}
		for i := 0; i < v.Len(); i++ {
			if c := carrier(v.Index(i), depth+1, seen); c != "" {
				return c
			}
		}
	case reflect.Map:
		for _, k := range v.MapKeys() {
			if c := carrier(k, depth+1, seen); c != "" {
				return c
			}
			if c := carrier(v.MapIndex(k), depth+1, seen); c != "" {
				return c
			}
		}
	case reflect.Struct:
		if t == zoo.TimeType {
			return ""
		}
		for i := 0; i < v.NumField(); i++ {
			if t.Field(i).PkgPath != "" {
				continue
			}
			if c := carrier(v.Field(i), depth+1, seen); c != "" {
				return c
			}
		}
	}
	return ""
}

// streamAlphabet: 12 fixed values of mixed kinds for the exhaustive short histories.
func streamAlphabet() []interface{} {
	shared := &zoo.Inner{A: 7, S: "shared"}
	return []interface{}{
		int32(5), int64(1 << 40), "hello", strings.Repeat("x", 2049), []byte{1, 2, 3}, 2.5, nil,
		shared, &zoo.WithInner{X: zoo.Inner{A: 1, S: "a"}, P: shared, N: 2}, &zoo.SlStr{V: []string{"a", "b"}},
		&zoo.MpStrI32{M: map[string]int32{"k": 1}}, []interface{}{int32(1), "two", shared},
	}
}

// c06Wide is what the sender has, c06Narrow what the receiver registers under the same class name
type c06Wide struct {
	Extra *zoo.Inner
	More  []*zoo.Inner
	N     int32
	Keep  *zoo.Inner
}

type c06Narrow struct {
	N    int32
	Keep *zoo.Inner
}

func (c06) Run(c Case, env *Env) Result {
	var res Result
	if c.Kind == "faultcont" {
		c06faultContinue(c, env, &res)
		return res
	}
	lo, hi := subRange(c)
	alpha := streamAlphabet()
	for j := lo; j < hi; j++ {
		var hist []interface{}
		var featSet = map[string]bool{}
		untyped := false
		var preStream []byte // a stream written by a peer (reference encoder) instead of this library
		var preOffs []int
		var preTm map[string]reflect.Type
		mode := j % 4
		// complete maps for exactly the values of this history
		tm, nm := map[string]reflect.Type{}, map[string]string{}
		switch c.Kind {
		case "lit":
			m := map[interface{}]interface{}{"k": int32(1), int32(2): "two"}
			l := []interface{}{int32(1), "two"}
			nm2 := zoo.NamedMap{"a": 1}
			switch c.S {
			case "map-resent":
				hist = []interface{}{m, "between", m, nm2, nm2}
			case "list-resent":
				hist = []interface{}{l, l, []interface{}{l, m}, m}
			case "named-map-with-containers":
				// a registered named map at a generic position whose values are first seen inside it,
				// then references to one of those values and to the map itself
				in1, in2 := &zoo.Inner{A: 1, S: "one"}, &zoo.Inner{A: 2, S: "two"}
				npm := zoo.NamedPtrMap{"k": in1, "j": in2}
				hist = []interface{}{"first", npm, in1, npm, &zoo.WithInner{P: in2, N: 3}, []interface{}{in1, npm}}
			case "two-names-one-type":
				// a peer that knows two versions of a class under two names; the receiver reads both into one
				// Go type: every instance has to be read with the field list of the definition it names
				a1, b1, a2, b2 := &zoo.Inner{A: 1, S: "a1"}, &zoo.Inner{A: 2, S: "b1"}, &zoo.Inner{A: 3, S: "a2"}, &zoo.Inner{A: 4, S: "b2"}
				hist = []interface{}{a1, b1, a1, a2, b2, []interface{}{a2, b1}, "tail"}
				v1 := func(x *zoo.Inner) *hspec.Value {
					return hspec.Object("v1.Inner", []string{"a", "s"}, hspec.Int(x.A), hspec.String(x.S))
				}
				v2 := func(x *zoo.Inner) *hspec.Value {
					return hspec.Object("v2.Inner", []string{"s", "gone", "a"}, hspec.String(x.S), hspec.String("dropped"), hspec.Int(x.A))
				}
				wa1, wb1, wa2, wb2 := v1(a1), v2(b1), v1(a2), v2(b2)
				if j%2 == 1 {
					wa1, wb1, wa2, wb2 = v2(a1), v1(b1), v2(a2), v1(b2)
				}
				pe := hspec.NewEncoder(hspec.Canonical{}, hspec.EncOpts{})
				for _, w := range []*hspec.Value{wa1, wb1, wa1, wa2, wb2, hspec.List("", wa2, wb1), hspec.String("tail")} {
					pe.Value(w)
					preOffs = append(preOffs, len(pe.Out))
				}
				preStream = pe.Out
				preTm = map[string]reflect.Type{"v1.Inner": reflect.TypeOf(zoo.Inner{}), "v2.Inner": reflect.TypeOf(zoo.Inner{})}
				featSet["peer-stream"], featSet["two-class-names-one-go-type"] = true, true
			case "badutf8":
				// strings that end in a cut-off lead octet, each followed by a value whose first octets
				// could be taken for continuation octets (x80..xbf are the one-octet ints -16..47)
				hist = []interface{}{"ab\xe4", int32(0), "x\xf0\x9f", int32(16), int32(47), "\xc3", int32(-16), "caf\xe9", "tail", &zoo.Inner{A: 1, S: "z\xe4\xb8"}, int32(1)}
			case "skew-then-resent":
				// version skew on a stream: the sender's class has fields the receiver's struct lacks; objects first
				// sent inside such a dropped field are sent AGAIN later (as values of their own, in kept fields):
				// the receiver must get the objects, of their registered types
				in1, in2 := &zoo.Inner{A: 1, S: "one"}, &zoo.Inner{A: 2, S: "two"}
				w1 := &c06Wide{Extra: in1, More: []*zoo.Inner{in2}, N: 1}
				w2 := &c06Wide{Extra: in2, N: 2, Keep: in1}
				sent := []interface{}{w1, in1, "between", w2, in2, []interface{}{in1, in2}}
				hist = []interface{}{&c06Narrow{N: 1}, in1, "between", &c06Narrow{N: 2, Keep: in1}, in2, []interface{}{in1, in2}}
				pw := &mon.CountingWriter{}
				pnm := map[string]string{"c06Wide": "c06.Rec", "Inner": "Inner", "[]*zoo.Inner": "[zoo.Inner"}
				var penc *hessian.Encoder
				var pser hessian.Serializer
				if j%2 == 0 {
					penc = hessian.NewEncoder(pw, pnm)
				} else {
					pser = hessian.NewSerializer(nil, pnm)
				}
				for i, v := range sent {
					var err error
					switch {
					case penc != nil:
						err = penc.WriteObject(v)
					case i == 0:
						err = pser.WriteTo(pw, v)
					default:
						err = pser.Write(v)
					}
					if err != nil {
						res.Inconclusive = append(res.Inconclusive, "skew-then-resent: the sender could not write: "+err.Error())
					}
					preOffs = append(preOffs, pw.Buf.Len())
				}
				preStream = append([]byte{}, pw.Buf.Bytes()...)
				preTm = map[string]reflect.Type{"c06.Rec": reflect.TypeOf(c06Narrow{}), "Inner": reflect.TypeOf(zoo.Inner{}), "[zoo.Inner": reflect.TypeOf([]*zoo.Inner{})}
				featSet["version-skew"], featSet["dropped-then-resent"] = true, true
			case "ptr-key-map":
				// a generic map whose KEY (and one value) is an object already sent on the stream: both arrive as
				// back-references and must come out as the object, of its documented type
				acc, acc2 := &zoo.Inner{A: 1, S: "acc"}, &zoo.Inner{A: 2, S: "acc2"}
				hist = []interface{}{acc, map[interface{}]interface{}{acc: int32(1), "v": acc}, acc2, []interface{}{map[interface{}]interface{}{acc2: acc}, acc2}}
			case "many-containers-then-refs":
				// a stream that has carried tens of thousands of containers (objects, lists) goes on with values
				// that refer back: to a node first sent just now, to one sent long ago, to a whole earlier value.
				// Whatever either side keeps per container must still number them as the other side does
				var first, mid *zoo.Inner
				var early *zoo.SlPtr
				for i := 0; i < 700; i++ {
					sl := &zoo.SlPtr{V: make([]*zoo.Inner, 100)}
					for k := range sl.V {
						sl.V[k] = &zoo.Inner{A: int32(i*100 + k), S: "leaf"}
					}
					if i == 0 {
						first = sl.V[3]
					}
					if i == 350 {
						mid, early = sl.V[50], sl
					}
					hist = append(hist, sl)
					if i == 41 || i == 655 {
						fresh := &zoo.Inner{A: int32(-i), S: "fresh"}
						hist = append(hist, &zoo.SlPtr{V: []*zoo.Inner{fresh, fresh, first}}, fresh)
					}
				}
				fresh := &zoo.Inner{A: -7, S: "fresh2"}
				hist = append(hist, &zoo.SlPtr{V: []*zoo.Inner{fresh, fresh}}, &zoo.WithInner{P: fresh, N: 1}, first, mid, early, "tail", int32(5),
					&zoo.SlPtr{V: []*zoo.Inner{mid, fresh, first}})
				featSet["long-history"] = true
			case "untyped-empty":
				// empty and nil lists travelling untyped: first inside a typed field, then (as the encoder sees
				// it: the same empty container again) at a generic position, and the other way round
				hist = []interface{}{&zoo.SlInt64{}, []int64(nil), "between", &zoo.SlPtr{V: []*zoo.Inner{}}, []*zoo.Inner{}, []string{}, &zoo.SlStr{V: []string{}}, &zoo.SlStr{}, "tail"}
				untyped = true
			case "untyped-resent", "untyped-resent-reverse":
				ss := []string{"p", "q", "r"}
				is := []int64{1 << 40, 2}
				ps := []*zoo.Inner{{A: 1, S: "a"}, {A: 2, S: "b"}}
				hist = []interface{}{ss, is, "between", &zoo.SlStr{V: ss}, &zoo.SlInt64{V: is}, ps, &zoo.SlPtr{V: ps}, ss}
				if c.S == "untyped-resent-reverse" {
					hist = []interface{}{&zoo.SlStr{V: ss}, &zoo.SlInt64{V: is}, &zoo.SlPtr{V: ps}, "between", ss, is, ps, &zoo.SlStr{V: ss}}
				}
				untyped = true
			}
			mode = j % 4
		case "long":
			r := rand.New(rand.NewSource(Mix(c.Seed, j)))
			n := c.N/2 + r.Intn(c.N/2)
			shared := &zoo.Inner{A: 1, S: "sh"}
			for i := 0; i < n; i++ {
				var v interface{}
				switch r.Intn(9) {
				case 0:
					v = &zoo.GF{Id: int32(i)} // nil map, nil slice, zero time, empty string fields
				case 1:
					m := map[string]int32{"k": int32(i)}
					v = &zoo.Shr{M1: m, M2: m, X: shared} // a map field that is a back-reference
				case 2:
					v = &zoo.MpStrI32{M: map[string]int32{}}
				case 3:
					v = &zoo.MpStrPtr{M: map[string]*zoo.Inner{"a": shared, "b": shared}}
				case 4:
					v = &zoo.SlPtr{V: []*zoo.Inner{shared, nil, shared}}
				case 5:
					v = int32(i)
				case 6:
					v = &zoo.PtrMap{X: shared}
				case 7:
					v = &zoo.MpStrMp{M: map[string]map[string]string{"o": {}, "p": nil}}
				default:
					v = &zoo.WithInner{X: zoo.Inner{A: int32(i), S: "w"}, P: shared, N: int32(i)}
				}
				mergeMaps(tm, nm, v)
				hist = append(hist, v)
			}
			featSet["long-history"] = true
		case "alpha":
			k := j
			if c.N >= 0 {
				// histories starting with alphabet value c.N: length 1, 2 (12), 3 (144)
				hist = append(hist, alpha[c.N])
				switch {
				case k == 0:
				case k <= 12:
					hist = append(hist, alpha[k-1])
				default:
					k -= 13
					hist = append(hist, alpha[k/12], alpha[k%12])
				}
			} else {
				if k < 12 {
					hist = []interface{}{alpha[k]}
				} else {
					k -= 12
					hist = []interface{}{alpha[k/12], alpha[k%12]}
				}
			}
			mode = (j + c.N + 4) % 4
		default:
			r := rand.New(rand.NewSource(Mix(c.Seed, j)))
			n := 1 + r.Intn(c.N)
			if env.Tier == "quick" && n > 20 {
				n = 1 + r.Intn(20)
			}
			cfg := zooCfg(env, "C01")
			cfg.MaxLen, cfg.StrMax, cfg.MaxDepth = 5, 20, 3
			var ptrs []interface{}
			for i := 0; i < n; i++ {
				switch x := r.Intn(10); {
				case x == 0 && len(ptrs) > 0:
					hist = append(hist, ptrs[r.Intn(len(ptrs))]) // the same pointer again
					featSet["pointer-resent"] = true
				case x == 1:
					hist = append(hist, nil)
				case x == 2:
					hist = append(hist, strings.Repeat("é", []int{2047, 2048, 2049, 31, 32, 1023, 1024}[r.Intn(7)]))
				default:
					e := zoo.Types[r.Intn(len(zoo.Types))]
					if typeAvoided(env, "C01", e) {
						continue
					}
					share := 0.0
					if e.Has("recursive") {
						share = 0.3
					}
					v, fs := zooValue(e, Mix(c.Seed, j*1000+i), cfg, share)
					for _, f := range fs {
						featSet[f] = true
					}
					if !mergeMaps(tm, nm, v) {
						continue // its list/class names collide with an earlier value's
					}
					hist = append(hist, v)
					if rv := reflect.ValueOf(v); rv.Kind() == reflect.Ptr || ((rv.Kind() == reflect.Slice || rv.Kind() == reflect.Map) && rv.Len() > 0 && rv.Type().Elem().Kind() != reflect.Uint8) {
						ptrs = append(ptrs, v) // pointers, and slices / maps (the encoder refers back to those too)
					}
				}
			}
			if len(hist) == 0 {
				continue
			}
		}
		if c.Kind == "lit" {
			for _, v := range hist {
				mergeMaps(tm, nm, v)
			}
			for k, t := range preTm {
				tm[k] = t
			}
			if untyped {
				// classes only: lists travel untyped and take their type from the field they land in
				for k, v := range nm {
					if strings.HasPrefix(k, "[") || strings.HasPrefix(v, "[") {
						delete(nm, k)
					}
				}
				for k, t := range tm {
					if t.Kind() == reflect.Slice {
						delete(tm, k)
					}
				}
				featSet["untyped-lists"] = true
			}
		}
		if c.Kind == "alpha" {
			mergeMaps(tm, nm, &zoo.Inner{}) // the struct inside the untyped list must be known to the peer
			for _, v := range hist {
				mergeMaps(tm, nm, v)
			}
		}
		env.J(c.Idx, j)
		feats := []string{"mode=" + c06modes[mode]}
		for f := range featSet {
			feats = append(feats, f)
		}
		cc := c
		cc.Sub = j
		res.Evals++
		res.Count("values_streamed", int64(len(hist)))
		res.Count("mode="+c06modes[mode], 1)
		res.Max("history_length", int64(len(hist)))
		viol := func(class, detail string) {
			env.Viol(&res, Violation{Class: class, Features: feats, Detail: detail, Case: cc})
		}
		// ---- write phase
		w := &mon.CountingWriter{}
		offs := make([]int, 0, len(hist))
		var werr error
		wi := -1
		pi, _ := Guard(func() {
			var enc *hessian.Encoder
			var ser hessian.Serializer
			if preStream != nil {
				w.Write(preStream)
				offs = append(offs, preOffs...)
				return
			}
			if mode == 0 || mode == 2 {
				enc = hessian.NewEncoder(w, copyNames(nm))
			} else {
				ser = hessian.NewSerializer(tm, copyNames(nm))
			}
			for i, v := range hist {
				wi = i
				switch {
				case enc != nil:
					werr = enc.WriteObject(v)
				case i == 0:
					werr = ser.WriteTo(w, v)
				default:
					werr = ser.Write(v)
				}
				if werr != nil {
					return
				}
				offs = append(offs, w.Buf.Len())
			}
		})
		if pi != nil {
			viol("panic@write", fmt.Sprintf("write #%d of %d: %s", wi+1, len(hist), pi.Msg))
			continue
		}
		if werr != nil {
			viol("enc-error", fmt.Sprintf("write #%d of %d (%s): %v", wi+1, len(hist), describe(hist[wi]), werr))
			continue
		}
		stream := append([]byte(nil), w.Buf.Bytes()...)
		if len(hist) >= 2 {
			res.NT = append(res.NT, Hash64(string(stream)))
		}
		// reference framing of the stream
		rp := hspec.NewParser(stream)
		refOK := true
		for i := range hist {
			_, err := rp.Next()
			if err != nil {
				viol(parseErrClass(err), fmt.Sprintf("value #%d of the stream is rejected by the reference decoder: %v", i+1, err))
				refOK = false
				break
			}
			if rp.Pos != offs[i] {
				viol("wire:framing", fmt.Sprintf("value #%d: encoder had emitted %d bytes, the reference decoder frames the value at %d", i+1, offs[i], rp.Pos))
				refOK = false
				break
			}
		}
		if !refOK {
			continue
		}
		res.Max("class_defs_on_one_stream", int64(len(rp.Classes)))
		// ---- read phase
		rd := mon.NewReader(stream)
		rd.Budget = 64*len(stream) + 4096
		rd.Chunk = []int{0, 1, 5}[j%3] // whole reads / one byte per Read / five bytes per Read
		rd.EOFWithData = j%2 == 1      // the last byte arrives together with io.EOF
		outs := make([]interface{}, 0, len(hist))
		ri := -1
		var rerr error
		bad := false
		pi, bud := Guard(func() {
			var dec *hessian.Decoder
			var ser hessian.Serializer
			if mode == 0 || mode == 3 {
				dec = hessian.NewDecoder(rd, tm)
			} else {
				ser = hessian.NewSerializer(tm, copyNames(nm))
			}
			for i := range hist {
				ri = i
				var o interface{}
				switch {
				case dec != nil:
					o, rerr = dec.ReadObject()
				case i == 0:
					o, rerr = ser.ReadFrom(rd)
				default:
					o, rerr = ser.Read()
				}
				if rerr != nil {
					return
				}
				outs = append(outs, o)
				if rd.Off != offs[i] {
					viol("framing", fmt.Sprintf("read #%d of %d (%s): value occupies stream bytes up to %d, reader has consumed %d", i+1, len(hist), describe(hist[i]), offs[i], rd.Off))
					bad = true
					return
				}
			}
		})
		switch {
		case bud != nil:
			viol("budget:reader-calls", fmt.Sprintf("read #%d made more than %d reader calls on a %d-byte stream", ri+1, rd.Budget, len(stream)))
			continue
		case pi != nil:
			viol("panic@read", fmt.Sprintf("read #%d of %d (%s): %s", ri+1, len(hist), describe(hist[ri]), pi.Msg))
			continue
		case rerr != nil:
			viol("dec-error", fmt.Sprintf("read #%d of %d (%s): %v", ri+1, len(hist), describe(hist[ri]), rerr))
			continue
		case bad:
			continue
		}
		res.Count("reader_calls", int64(rd.Calls))
		firstAt := map[uintptr]int{}
		for i, v := range hist {
			if cr := carrier(reflect.ValueOf(outs[i]), 0, map[uintptr]bool{}); cr != "" {
				viol("carrier-leak", fmt.Sprintf("read #%d (%s) handed back internal type %s", i+1, describe(v), cr))
				bad = true
				break
			}
			if s, ok := v.(string); ok && !utf8.ValidString(s) {
				v = string([]rune(s)) // what an ill-formed string denotes is not specified; the framing above is
			}
			if in, ok := v.(*zoo.Inner); ok && !utf8.ValidString(in.S) {
				v = &zoo.Inner{A: in.A, S: string([]rune(in.S))}
			}
			if untyped {
				if rv := reflect.ValueOf(v); rv.Kind() == reflect.Slice {
					// an untyped list at a generic position comes back as []interface{}: compare the elements
					g := make([]interface{}, rv.Len())
					for k := range g {
						g[k] = rv.Index(k).Interface()
					}
					v = g
					// ... or as the typed slice, when a typed field received the same list earlier
					if ov := reflect.ValueOf(outs[i]); ov.IsValid() && ov.Kind() == reflect.Slice && ov.Type() == rv.Type() {
						v = hist[i]
					}
				}
			}
			if d := zoo.Equiv(v, outs[i], zoo.EquivOpts{}); d != "" {
				viol("mismatch", fmt.Sprintf("read #%d of %d (%s): %s", i+1, len(hist), describe(v), d))
				bad = true
				break
			}
			if rv := reflect.ValueOf(v); rv.IsValid() && rv.Kind() == reflect.Ptr && !rv.IsNil() {
				if k, ok := firstAt[rv.Pointer()]; ok {
					a, b := reflect.ValueOf(outs[k]), reflect.ValueOf(outs[i])
					if a.Kind() != reflect.Ptr || b.Kind() != reflect.Ptr || a.Pointer() != b.Pointer() {
						viol("sharing-across-values", fmt.Sprintf("the pointer written as values #%d and #%d came back as two different objects", k+1, i+1))
						bad = true
						break
					}
					res.Count("resent_pointers_identical_after_decode", 1)
				} else {
					firstAt[rv.Pointer()] = i
				}
			}
		}
		if !bad && len(res.Samples) == 0 && len(hist) >= 2 {
			var hs []string
			for i, v := range hist {
				if i >= 5 {
					hs = append(hs, fmt.Sprintf("... %d more", len(hist)-i))
					break
				}
				hs = append(hs, fmt.Sprintf("%s @%d", describe(v), offs[i]))
			}
			res.Sample(map[string]interface{}{"mode": c06modes[mode], "history": hs, "stream_bytes": len(stream)})
		}
	}
	return res
}

// c06faultContinue: the writer fails ONCE, on the first Write of value #f of a stream, and recovers. The failed call
// must report the failure (C15's business); what C06 judges is every LATER call on that stream that reports
// success: a value reported as written is on the stream, so reading the stream from its start must return
// exactly the values whose writes succeeded, in order, each equal to the original with its sharing. (An
// encoder that refuses to go on after a failure never reaches this oracle; one that goes on must go on right.)
func c06faultContinue(c Case, env *Env, res *Result) {
	lo, hi := subRange(c)
	for j := lo; j < hi; j++ {
		ring := func(id int32) *zoo.GNode {
			p, q := &zoo.GNode{Id: id}, &zoo.GNode{Id: id + 1}
			p.A, q.A, q.B = q, p, q
			q.Kids = []*zoo.GNode{p, q}
			return p
		}
		shared := &zoo.Inner{A: 7, S: "shared"}
		r1, r2 := ring(10), ring(20)
		vals := []interface{}{&zoo.WithInner{X: zoo.Inner{A: 1, S: "x"}, P: shared, N: 5}, r1, r2, &zoo.SlPtr{V: []*zoo.Inner{shared, shared}}, r1, shared}
		f := j % 3 // the value whose first Write fails
		mode := (j / 3) % 2
		retry := (j/6)%2 == 1
		if retry {
			// the caller retries the failed value right away
			vals = append(vals[:f+1], append([]interface{}{vals[f]}, vals[f+1:]...)...)
		}
		tm, nm := map[string]reflect.Type{}, map[string]string{}
		for _, v := range vals {
			mergeMaps(tm, nm, v)
		}
		cc := c
		cc.Sub = j
		res.Evals++
		res.NT = append(res.NT, Hash64(fmt.Sprint("faultcont", j)))
		feats := []string{"writer-fails-once-then-stream-continues", "mode=" + []string{"Encoder", "Serializer"}[mode]}
		viol := func(class, detail string) {
			env.Viol(res, Violation{Class: class, Features: feats, Detail: detail, Case: cc})
		}
		w := &mon.CountingWriter{}
		var okVals []interface{}
		clean := true
		pi, _ := Guard(func() {
			var enc *hessian.Encoder
			var ser hessian.Serializer
			if mode == 0 {
				enc = hessian.NewEncoder(w, copyNames(nm))
			} else {
				ser = hessian.NewSerializer(tm, copyNames(nm))
			}
			for i, v := range vals {
				before := w.Buf.Len()
				if i == f {
					w.Kind, w.K = mon.FaultOnce, w.Calls+1
				}
				var err error
				switch {
				case enc != nil:
					err = enc.WriteObject(v)
				case i == 0:
					err = ser.WriteTo(w, v)
				default:
					err = ser.Write(v)
				}
				if i == f {
					w.Kind = mon.FaultNone
				}
				switch {
				case err == nil && i != f:
					okVals = append(okVals, v)
				case err == nil:
					clean = false // the failed call reported success: C15 reports that; the stream is not judged here
				case w.Buf.Len() != before:
					clean = false // part of a refused value reached the stream: nothing after it can be framed
				}
			}
		})
		if pi != nil {
			viol("panic@write", pi.Msg)
			continue
		}
		res.Count("values_reported_written_after_a_recovered_writer_failure", int64(len(okVals)-f))
		if !clean || len(okVals) <= f {
			res.Count("streams_not_continued_after_the_failure", 1)
			continue
		}
		// the stream holds exactly okVals
		var rerr error
		var outs []interface{}
		pi, _ = Guard(func() {
			dec := hessian.NewDecoder(mon.NewReader(w.Buf.Bytes()), tm)
			for range okVals {
				var o interface{}
				if o, rerr = dec.ReadObject(); rerr != nil {
					return
				}
				outs = append(outs, o)
			}
		})
		switch {
		case pi != nil:
			viol("panic@read", pi.Msg)
		case rerr != nil:
			viol("dec-error", fmt.Sprintf("write #%d failed once (reported), %d later writes reported success; reading the stream: value #%d of %d: %v", f+1, len(okVals)-f, len(outs)+1, len(okVals), rerr))
		default:
			for i, v := range okVals {
				if d := zoo.Equiv(v, outs[i], zoo.EquivOpts{}); d != "" {
					viol("mismatch", fmt.Sprintf("write #%d failed once (reported); value #%d read from the stream (%s): %s", f+1, i+1, describe(v), d))
					break
				}
				if d := zoo.SameSharing(v, outs[i]); d != "" {
					viol("mismatch", fmt.Sprintf("write #%d failed once (reported); value #%d read from the stream (%s): %s", f+1, i+1, describe(v), d))
					break
				}
			}
		}
	}
}
