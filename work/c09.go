package work

import (
	"bytes"
	"fmt"
	hessian "github.com/vogo/gohessian"
	"math/rand"
	"reflect"
	"strings"
	"unicode/utf8"

	"verif/hspec"
	"verif/zoo"
)

// C09 — strings and byte arrays of any length and content.
type c09 struct{}

func init() { Register(c09{}) }

func (c09) ID() string    { return "C09" }
func (c09) Level() string { return "exploration" }
func (c09) Rule() string {
	return "strings of every length class (quick: around every form/chunk boundary; thorough: every length 0..3*2048+40) x content classes {ASCII, 2-, 3-, 4-byte code points, ASCII with one wide code point at each offset within +-4 of every chunk boundary}, byte slices likewise (chunk 4096), random valid UTF-8 up to 1 MiB; positions top level, list element, map key, map value, struct field incl. empty string / nil []byte inside containers. Oracle: decoded content byte-equal; emitted bytes parsed by the reference decoder: declared string length = code points of the chunk, binary length = octets, every chunk valid UTF-8 on its own. Non-trivial = length > 0; distinct by (position, class, length, content hash)."
}
func (c09) Exhaustive(tier string) (bool, string) {
	return tier == "thorough", "every string length 0..6184 and binary length 0..12328 (top level) in every content class"
}

var strClasses = []string{"ascii", "2byte", "3byte", "4byte", "mixed", "asciitail", "asciihead"}

func (c09) Cases(tier string, seed int64, kf *KnownFindings) []Case {
	var cs []Case
	add := func(c Case) { c.Sub = -1; cs = append(cs, c) }
	add(Case{Kind: "bulk", Seed: Mix(seed, 4245)})
	add(Case{Kind: "dup", Count: 8})
	if tier == "quick" {
		lens := []int{0, 1, 2, 15, 16, 30, 31, 32, 33, 255, 256, 1022, 1023, 1024, 1025, 2046, 2047, 2048, 2049, 2050, 4095, 4096, 4097, 4098, 6143, 6144, 6145, 6184}
		for _, cl := range strClasses {
			add(Case{Kind: "strlens", S: cl, Vec: lens})
		}
		blens := []int{0, 1, 14, 15, 16, 17, 1023, 1024, 1025, 4094, 4095, 4096, 4097, 4098, 8191, 8192, 8193, 12287, 12288, 12289, 12328}
		add(Case{Kind: "binlens", Vec: blens})
		add(Case{Kind: "binlens", Vec: c09bigBin})
		add(Case{Kind: "foreign", Count: len(c09foreign())})
		add(Case{Kind: "wide", N: 2048})
		add(Case{Kind: "skew", Seed: Mix(seed, 77), Count: 120})
		for i := 0; i < 8; i++ {
			add(Case{Kind: "positions", Seed: Mix(seed, i), Count: 150})
		}
		add(Case{Kind: "big", Seed: Mix(seed, 99), Count: 3})
	} else {
		for _, cl := range strClasses {
			for a := 0; a <= 6184; a += 200 {
				var lens []int
				for l := a; l < a+200 && l <= 6184; l++ {
					lens = append(lens, l)
				}
				add(Case{Kind: "strlens", S: cl, Vec: lens})
			}
		}
		for a := 0; a <= 12328; a += 400 {
			var lens []int
			for l := a; l < a+400 && l <= 12328; l++ {
				lens = append(lens, l)
			}
			add(Case{Kind: "binlens", Vec: lens})
		}
		add(Case{Kind: "binlens", Vec: c09bigBin})
		add(Case{Kind: "foreign", Count: len(c09foreign())})
		add(Case{Kind: "wide", N: 2048})
		add(Case{Kind: "skew", Seed: Mix(seed, 77), Count: 1500})
		for i := 0; i < 64; i++ {
			add(Case{Kind: "positions", Seed: Mix(seed, i), Count: 1500})
		}
		for i := 0; i < 16; i++ {
			add(Case{Kind: "big", Seed: Mix(seed, 99+i), Count: 4})
		}
	}
	return cs
}

// lengths around the largest chunk a header can announce (two length octets) and whole multiples of 4096 beyond it
var c09bigBin = []int{32767, 32768, 61440, 65535, 65536, 65537, 69632, 73728, 131072}

type c09foreignMsg struct {
	name  string
	wire  []byte
	isBin bool
	want  string
	// wantVal (when set): the whole decoded value is compared with it (absent string == empty string)
	wantVal interface{}
}

// c09foreign: legal renderings by OTHER encoders: one chunk may hold up to 65535 characters / octets
// (this library cuts at 2048 / 4096; Java cuts strings at 32768)
func c09foreign() []c09foreignMsg {
	var out []c09foreignMsg
	for _, n := range []int{2049, 32767, 32768, 40000, 65535} {
		for ci, unit := range []string{"a", "é", "世"} {
			s := strings.Repeat(unit, n)
			w := append([]byte{'S', byte(n >> 8), byte(n)}, s...)
			out = append(out, c09foreignMsg{fmt.Sprintf("one final string chunk of %d characters (class %d)", n, ci), w, false, s, nil})
		}
		b := bytes.Repeat([]byte{0xa5}, n)
		out = append(out, c09foreignMsg{fmt.Sprintf("one final binary chunk of %d octets", n), append([]byte{'B', byte(n >> 8), byte(n)}, b...), true, string(b), nil})
	}
	// Java style: non-final chunks of 0x8000 characters, then the rest
	s := strings.Repeat("j", 0x8000) + strings.Repeat("é", 0x8000) + "tail"
	w := append([]byte{'R', 0x80, 0x00}, strings.Repeat("j", 0x8000)...)
	w = append(w, 'R', 0x80, 0x00)
	w = append(w, strings.Repeat("é", 0x8000)...)
	w = append(w, 0x04, 't', 'a', 'i', 'l')
	out = append(out, c09foreignMsg{"two non-final chunks of 32768 characters and a short final one", w, false, s, nil})
	bb := bytes.Repeat([]byte{7}, 0xffff)
	wb := append([]byte{'A', 0xff, 0xff}, bb...)
	wb = append(wb, 0x22, 1, 2)
	out = append(out, c09foreignMsg{"a non-final binary chunk of 65535 octets and a short final one", wb, true, string(bb) + "\x01\x02", nil})
	// a chunked value closed by an EMPTY final chunk (x20 / 'B' 0 0 / x34 0 for binaries, x00 / 'S' 0 0 for strings)
	b4 := bytes.Repeat([]byte{0x3c}, 4096)
	for i, fin := range [][]byte{{0x20}, {'B', 0, 0}, {0x34, 0}} {
		w := append(append([]byte{'A', 0x10, 0x00}, b4...), fin...)
		out = append(out, c09foreignMsg{fmt.Sprintf("a 4096-octet non-final binary chunk closed by the empty final chunk #%d", i), w, true, string(b4), nil})
		w2 := append([]byte{0x41, 0x00, 0x03, 1, 2, 3, 0x41, 0x00, 0x02, 4, 5}, fin...)
		out = append(out, c09foreignMsg{fmt.Sprintf("two short non-final binary chunks closed by the empty final chunk #%d", i), w2, true, "\x01\x02\x03\x04\x05", nil})
	}
	// the one-octet forms of the EMPTY string (x00) and the empty binary (x20) in front of other values: an
	// empty value is a whole value (this library's encoder writes null for both, other encoders do not)
	for _, m := range []c09foreignMsg{
		{name: "x00 then a string in a variable-length list", wire: []byte{0x57, 0x00, 0x03, 'a', 'b', 'c', 'Z'}, wantVal: []interface{}{"", "abc"}},
		{name: "two x00 then a string in a fixed-length list", wire: []byte{0x7b, 0x00, 0x00, 0x02, 0xc3, 0xa9, 'x'}, wantVal: []interface{}{"", "", "éx"}},
		{name: "x00 as map key and as map value", wire: []byte{'H', 0x00, 0x01, 'v', 0x01, 'k', 0x00, 'Z'}, wantVal: map[interface{}]interface{}{"": "v", "k": ""}},
		{name: "x20 then a binary in a list", wire: []byte{0x57, 0x20, 0x23, 'a', 'b', 'c', 'Z'}, wantVal: []interface{}{[]byte{}, []byte("abc")}},
		{name: "'S' 0 0 then a string, 'B' 0 0 then a binary", wire: []byte{0x7c, 'S', 0, 0, 0x01, 'q', 'B', 0, 0, 0x21, 7}, wantVal: []interface{}{"", "q", []byte{}, []byte{7}}},
		{name: "x00 then an int and a string (x91 could be taken for a tag-less continuation)", wire: []byte{0x7b, 0x00, 0x91, 0x02, 'h', 'i'}, wantVal: []interface{}{"", int32(1), "hi"}},
	} {
		out = append(out, m)
	}
	s3 := strings.Repeat("é", 2048)
	for i, fin := range [][]byte{{0x00}, {'S', 0, 0}, {0x30, 0}} {
		w := append(append([]byte{'R', 0x08, 0x00}, s3...), fin...)
		out = append(out, c09foreignMsg{fmt.Sprintf("a 2048-character non-final string chunk closed by the empty final chunk #%d", i), w, false, s3, nil})
	}
	return out
}

// c09Wide is what the sender has, c09Narrow what the receiver knows under the same class name
type c09Wide struct {
	Name  string
	Note  string
	Notes []string
	Tail  string
	Data  []byte
}

type c09Narrow struct {
	Name string
	Tail string
	Data []byte
}

const c09skewNote = "ééé\x02hi — 名前 \U0001F600 done"

func strOfClass(r *rand.Rand, class string, n int) string {
	var sb strings.Builder
	for i := 0; i < n; i++ {
		switch class {
		case "ascii":
			sb.WriteByte(byte(' ' + r.Intn(95)))
		case "2byte":
			sb.WriteRune(rune(0x80 + r.Intn(0x780)))
		case "3byte":
			c := rune(0x800 + r.Intn(0xf800))
			if c >= 0xd800 && c <= 0xdfff {
				c = 0x4e16
			}
			sb.WriteRune(c)
		case "4byte":
			sb.WriteRune(rune(0x10000 + r.Intn(0x100000)))
		case "asciitail", "asciihead":
			// ASCII except for the last one or two (the first) characters
			if (class == "asciitail" && i >= n-1-n%2) || (class == "asciihead" && i == 0) {
				sb.WriteRune([]rune{0xe9, 0x4e16, 0x1f600, 0x7ff}[r.Intn(4)])
			} else {
				sb.WriteByte(byte(' ' + r.Intn(95)))
			}
		default:
			sb.WriteRune([]rune{'a', 0xe9, 0x4e16, 0x1f600, 'z', 0x7ff, 0x800, 0xffff, 0x10ffff}[r.Intn(9)])
		}
	}
	return sb.String()
}

// checkString: round trip of content at a position + wire-level chunk checks.
func c09check(env *Env, res *Result, c Case, sub int, pos string, isBin bool, s string) {
	res.Evals++
	n := utf8.RuneCountInString(s)
	if isBin {
		n = len(s)
	}
	res.NT = append(res.NT, Hash64(fmt.Sprintf("%s|%v|%d|%x", pos, isBin, n, Hash64(s))))
	res.Count("pos="+pos, 1)
	kind := "string"
	if isBin {
		kind = "binary"
	}
	feats := []string{kind, "pos=" + pos}
	if n == 0 {
		feats = append(feats, kind+".empty@"+pos)
	}
	cc := c
	cc.Sub = sub
	viol := func(class, detail string) {
		env.Viol(res, Violation{Class: class, Features: feats, Detail: fmt.Sprintf("%s of length %d (%d bytes) at %s: %s", kind, n, len(s), pos, detail), Case: cc})
	}
	var val interface{}
	var get func(d interface{}) (string, bool)
	asStr := func(x interface{}) (string, bool) {
		if x == nil {
			return "", true // absent == empty
		}
		if isBin {
			b, ok := x.([]byte)
			return string(b), ok
		}
		v, ok := x.(string)
		return v, ok
	}
	switch pos {
	case "top":
		if isBin {
			val = []byte(s)
		} else {
			val = s
		}
		get = asStr
	case "field":
		if isBin {
			val = &zoo.Scalars{Bin: []byte(s), S: "x"}
			get = func(d interface{}) (string, bool) {
				x, ok := d.(*zoo.Scalars)
				if !ok {
					return "", false
				}
				return string(x.Bin), true
			}
		} else {
			val = &zoo.Scalars{S: s}
			get = func(d interface{}) (string, bool) {
				x, ok := d.(*zoo.Scalars)
				if !ok {
					return "", false
				}
				return x.S, true
			}
		}
	case "elem":
		if isBin {
			val = &zoo.SlBin{V: [][]byte{{1}, []byte(s), {2}}}
			get = func(d interface{}) (string, bool) {
				x, ok := d.(*zoo.SlBin)
				if !ok || len(x.V) != 3 || !bytes.Equal(x.V[0], []byte{1}) || !bytes.Equal(x.V[2], []byte{2}) {
					return "", false
				}
				return string(x.V[1]), true
			}
		} else {
			val = &zoo.SlStr{V: []string{"a", s, "b"}}
			get = func(d interface{}) (string, bool) {
				x, ok := d.(*zoo.SlStr)
				if !ok || len(x.V) != 3 || x.V[0] != "a" || x.V[2] != "b" {
					return "", false
				}
				return x.V[1], true
			}
		}
	case "mapkey":
		val = &zoo.MpStrStr{M: map[string]string{s: "v", "other": "w"}}
		get = func(d interface{}) (string, bool) {
			x, ok := d.(*zoo.MpStrStr)
			if !ok || len(x.M) != 2 || x.M["other"] != "w" {
				return "", false
			}
			for k, v := range x.M {
				if v == "v" {
					return k, true
				}
			}
			return "", false
		}
	case "mapval":
		if isBin {
			val = &zoo.MpStrBin{M: map[string][]byte{"k": []byte(s), "other": {7}}}
			get = func(d interface{}) (string, bool) {
				x, ok := d.(*zoo.MpStrBin)
				if !ok || len(x.M) != 2 {
					return "", false
				}
				return string(x.M["k"]), true
			}
		} else {
			val = &zoo.MpStrStr{M: map[string]string{"k": s, "other": "w"}}
			get = func(d interface{}) (string, bool) {
				x, ok := d.(*zoo.MpStrStr)
				if !ok || len(x.M) != 2 || x.M["other"] != "w" {
					return "", false
				}
				v, ok := x.M["k"]
				return v, ok
			}
		}
	}
	var o rtOut
	if pos == "skew" {
		w := &c09Wide{Name: "n", Note: s, Notes: []string{"a", s, "ж"}, Tail: s, Data: []byte{1, 2}}
		if isBin {
			w.Note, w.Notes, w.Tail, w.Data = c09skewNote, []string{c09skewNote}, "tail", []byte(s)
		}
		get = func(d interface{}) (string, bool) {
			x, ok := d.(*c09Narrow)
			if !ok || x.Name != "n" {
				return "", false
			}
			if isBin {
				return string(x.Data), x.Tail == "tail"
			}
			return x.Tail, bytes.Equal(x.Data, []byte{1, 2})
		}
		o.Stage = "encode"
		o.Panic, _ = Guard(func() {
			o.Wire, o.EncErr = hessian.ToBytes(w, map[string]string{"c09Wide": "c09.Rec"})
			if o.EncErr != nil {
				return
			}
			o.Stage = "decode"
			o.Dec, o.DecErr = hessian.ToObject(o.Wire, map[string]reflect.Type{"c09.Rec": reflect.TypeOf(c09Narrow{})})
		})
	} else {
		o = roundTrip(val)
	}
	switch {
	case o.Panic != nil:
		viol(o.Panic.Class, o.Stage+" panic "+o.Panic.Msg)
		return
	case o.EncErr != nil:
		viol("enc-error", o.EncErr.Error())
		return
	}
	// wire-level: well-formed, chunk lengths right, content denoted
	if pos == "top" || pos == "field" {
		rv, _, err := hspec.Parse(o.Wire)
		if err != nil {
			viol(parseErrClass(err), fmt.Sprintf("emitted bytes (%s) rejected by the reference decoder: %v", hexClip(o.Wire), err))
		} else {
			leaf := rv
			if pos == "field" {
				idx := 13 // Scalars.S
				if isBin {
					idx = 14
				}
				if rv.Kind == hspec.KObject && len(rv.Elems) > idx {
					leaf = rv.Elems[idx]
				}
			}
			content := ""
			switch leaf.Kind {
			case hspec.KString:
				content = leaf.S
			case hspec.KBinary:
				content = string(leaf.Bin)
			case hspec.KNull:
				content = ""
			default:
				viol("wire:kind", fmt.Sprintf("emitted a %v", leaf.Kind))
			}
			if content != s {
				viol("wire:content", fmt.Sprintf("reference decoder reads different content (len %d) from %s", len(content), hexClip(o.Wire)))
			}
			if leaf.Ann != nil {
				res.Max("chunks_in_one_value", int64(len(leaf.Ann.Chunks)))
				res.Count("chunks_parsed", int64(len(leaf.Ann.Chunks)))
			}
		}
	}
	if o.DecErr != nil {
		viol("dec-error", fmt.Sprintf("(%s) %v", hexClip(o.Wire), o.DecErr))
		return
	}
	judge := func(how string, dec interface{}) {
		got, ok := get(dec)
		if !ok {
			viol("mismatch:shape", fmt.Sprintf("%s(%s) decoded as %T %.200v", how, hexClip(o.Wire), dec, dec))
			return
		}
		if got != s {
			i := 0
			for i < len(got) && i < len(s) && got[i] == s[i] {
				i++
			}
			viol("mismatch:content", fmt.Sprintf("%sdecoded %d bytes, want %d; first difference at byte %d", how, len(got), len(s), i))
		}
	}
	judge("", o.Dec)
	if pos == "top" || pos == "skew" {
		return
	}
	// the same bytes (names taken from the value) decoded with the type map taken from the TYPE: both
	// extractions must agree on the wire names of lists of strings and of byte slices
	if pos == "elem" || pos == "field" {
		var d3 interface{}
		var e3 error
		pi3, _ := Guard(func() { d3, e3 = hessian.ToObject(o.Wire, hessian.TypeMapOf(reflect.TypeOf(val))) })
		switch {
		case pi3 != nil:
			viol(pi3.Class, "decode with TypeMapOf(type): panic "+pi3.Msg)
		case e3 != nil:
			viol("dec-error", "encoded with the name map of the value, decoded with TypeMapOf(type): "+e3.Error())
		default:
			judge("decoded with TypeMapOf(type): ", d3)
		}
		res.Count("typemapof_round_trips", 1)
	}
	// the same container through the other documented way of calling: no name map on the encoding side,
	// only the classes registered on the decoding side (list and map types then come from the field types)
	res.Count("class_only_type_map_round_trips", 1)
	classes := map[string]reflect.Type{}
	for k, t := range o.TypMap {
		if t.Kind() == reflect.Struct {
			classes[k] = t
		}
	}
	var dec2 interface{}
	var err2 error
	pi, _ := Guard(func() {
		var w2 []byte
		if w2, err2 = hessian.ToBytes(val, nil); err2 == nil {
			dec2, err2 = hessian.ToObject(w2, classes)
		}
	})
	switch {
	case pi != nil:
		viol(pi.Class, "nil name map / class-only type map: panic "+pi.Msg)
	case err2 != nil:
		viol("dec-error", "nil name map / class-only type map: "+err2.Error())
	default:
		judge("nil name map / class-only type map: ", dec2)
	}
}

func (c09) Run(c Case, env *Env) Result {
	var res Result
	r := rand.New(rand.NewSource(Mix(c.Seed, 7) + int64(len(c.S))))
	switch c.Kind {
	case "bulk":
		bulkCheck(env, &res, c, "string")
		res.Sample(map[string]interface{}{"kind": "bulk", "what": "600 short multi-byte strings / 400 binaries in one list, strings behind 4070..4100 bytes of padding"})
	case "dup":
		// the same byte slice (and the same string) several times in one message
		b := []byte{1, 2, 3, 4, 5}
		vals := []interface{}{
			&zoo.SlBin{V: [][]byte{b, {9}, b}}, &zoo.SlBin{V: [][]byte{{}, {}, nil}}, &zoo.MpStrBin{M: map[string][]byte{"a": b, "b": b}},
			[]interface{}{b, b, "s", "s"}, &zoo.SlBin{V: [][]byte{b[:2], b[:2], b}},
			// a chunked binary first, then one-chunk binaries (a decoder re-using its chunk buffer would alias them)
			&zoo.SlBin{V: [][]byte{bytes.Repeat([]byte{7}, 5000), bytes.Repeat([]byte{1}, 100), bytes.Repeat([]byte{2}, 50), bytes.Repeat([]byte{3}, 4096), {4, 4}}},
			&zoo.MpStrBin{M: map[string][]byte{"big": bytes.Repeat([]byte{9}, 9000), "s1": {1, 1, 1}, "s2": {2, 2}}},
			[]interface{}{strings.Repeat("L", 5000), "short", strings.Repeat("é", 2049), "x"},
		}
		for j, v := range vals {
			if c.Sub >= 0 && c.Sub != j {
				continue
			}
			res.Evals++
			res.NT = append(res.NT, Hash64(fmt.Sprintf("dup|%d", j)))
			cc := c
			cc.Sub = j
			o := roundTrip(v)
			feats := []string{"binary", "same-slice-twice"}
			switch {
			case o.Panic != nil:
				env.Viol(&res, Violation{Class: o.Panic.Class, Features: feats, Detail: o.Panic.Msg, Case: cc})
			case o.EncErr != nil:
				env.Viol(&res, Violation{Class: "enc-error", Features: feats, Detail: o.EncErr.Error(), Case: cc})
			case o.DecErr != nil:
				env.Viol(&res, Violation{Class: "dec-error", Features: feats, Detail: fmt.Sprintf("(%s) %v", hexClip(o.Wire), o.DecErr), Case: cc})
			default:
				if d := zoo.Equiv(v, o.Dec, zoo.EquivOpts{}); d != "" {
					env.Viol(&res, Violation{Class: "mismatch:content", Features: feats, Detail: d, Case: cc})
				}
				if _, _, err := hspec.Parse(o.Wire); err != nil {
					env.Viol(&res, Violation{Class: parseErrClass(err), Features: feats, Detail: fmt.Sprintf("(%s) %v", hexClip(o.Wire), err), Case: cc})
				}
			}
		}
		res.Sample(map[string]interface{}{"kind": "same byte slice several times in one message", "values": len(vals)})
	case "strlens":
		for j, l := range c.Vec {
			if c.Sub >= 0 && j != c.Sub {
				continue
			}
			rj := rand.New(rand.NewSource(Mix(c.Seed+1, l)))
			c09check(env, &res, c, j, "top", false, strOfClass(rj, c.S, l))
		}
		res.Sample(map[string]interface{}{"kind": "string lengths", "class": c.S, "lengths": fmt.Sprintf("%d..%d (%d)", c.Vec[0], c.Vec[len(c.Vec)-1], len(c.Vec))})
	case "binlens":
		for j, l := range c.Vec {
			if c.Sub >= 0 && j != c.Sub {
				continue
			}
			b := make([]byte, l)
			rand.New(rand.NewSource(Mix(c.Seed+2, l))).Read(b)
			c09check(env, &res, c, j, "top", true, string(b))
			// the same byte array as a struct field, a list element and a map value (other read paths)
			c09check(env, &res, c, j, "field", true, string(b))
			if l%3 == 0 || l > 4096 {
				c09check(env, &res, c, j, "elem", true, string(b))
				c09check(env, &res, c, j, "mapval", true, string(b))
			}
		}
		res.Sample(map[string]interface{}{"kind": "binary lengths", "lengths": fmt.Sprintf("%d..%d (%d)", c.Vec[0], c.Vec[len(c.Vec)-1], len(c.Vec))})
	case "foreign":
		msgs := c09foreign()
		lo, hi := subRange(c)
		for j := lo; j < hi && j < len(msgs); j++ {
			m := msgs[j]
			res.Evals++
			res.NT = append(res.NT, Hash64(m.name))
			cc := c
			cc.Sub = j
			var out interface{}
			var err error
			pi, _ := Guard(func() { out, err = hessian.ToObject(m.wire, nil) })
			feats := []string{"foreign-chunking"}
			viol := func(class, d string) {
				env.Viol(&res, Violation{Class: class, Features: feats, Detail: m.name + " (" + hexClip(m.wire) + "): " + d, Case: cc})
			}
			switch {
			case pi != nil:
				viol(pi.Class, "panic "+pi.Msg)
			case err != nil:
				viol("dec-error", err.Error())
			case m.wantVal != nil:
				if d := zoo.Equiv(m.wantVal, out, zoo.EquivOpts{}); d != "" {
					viol("mismatch:content", fmt.Sprintf("decoded %T %.120v: %s", out, out, d))
				}
			default:
				got, ok := "", false
				if m.isBin {
					var b []byte
					b, ok = out.([]byte)
					got = string(b)
				} else {
					got, ok = out.(string)
				}
				if !ok || got != m.want {
					viol("mismatch:content", fmt.Sprintf("decoded %T of %d bytes, want %d bytes", out, len(got), len(m.want)))
				}
			}
		}
		res.Sample(map[string]interface{}{"kind": "foreign chunking", "messages": len(msgs)})
	case "wide":
		// ASCII with one wide code point at every offset within +-4 of each chunk boundary
		j := 0
		for _, total := range []int{c.N + 10, 2*c.N + 10, 3*c.N + 10} {
			for k := 1; k*c.N < total; k++ {
				for off := k*c.N - 4; off <= k*c.N+4; off++ {
					for _, wide := range []rune{0xe9, 0x4e16, 0x1f600} {
						if c.Sub < 0 || c.Sub == j {
							rs := []rune(strings.Repeat("x", total))
							rs[off] = wide
							c09check(env, &res, c, j, "top", false, string(rs))
						}
						j++
					}
				}
			}
		}
		res.Sample(map[string]interface{}{"kind": "wide code point around chunk boundaries", "chunk": c.N, "cases": j})
	case "skew":
		// version skew: the sender's class has a text field (and a list of texts) the receiver's struct lacks;
		// the strings and byte arrays BEHIND the dropped ones must still be exact
		lens := []int{0, 1, 2, 5, 31, 32, 33, 100, 1023, 1024, 1025, 2048, 2049}
		for j := 0; j < c.Count; j++ {
			isBin := r.Intn(3) == 0
			l := lens[r.Intn(len(lens))]
			if r.Intn(3) == 0 {
				l = r.Intn(60)
			}
			cl := strClasses[r.Intn(len(strClasses))]
			var s string
			if isBin {
				b := make([]byte, l)
				r.Read(b)
				s = string(b)
			} else {
				s = strOfClass(r, cl, l)
			}
			if c.Sub >= 0 && j != c.Sub {
				continue
			}
			c09check(env, &res, c, j, "skew", isBin, s)
		}
		res.Sample(map[string]interface{}{"kind": "strings/binaries behind dropped text fields", "seed": c.Seed, "count": c.Count})
	case "positions":
		positions := []string{"field", "elem", "mapkey", "mapval", "top"}
		lens := []int{0, 0, 1, 2, 5, 31, 32, 33, 100, 1023, 1024, 2048, 2049}
		for j := 0; j < c.Count; j++ {
			pos := positions[r.Intn(len(positions))]
			isBin := r.Intn(3) == 0 && pos != "mapkey"
			l := lens[r.Intn(len(lens))]
			if r.Intn(3) == 0 {
				l = r.Intn(60)
			}
			cl := strClasses[r.Intn(len(strClasses))]
			var s string
			if isBin {
				b := make([]byte, l)
				r.Read(b)
				s = string(b)
			} else {
				s = strOfClass(r, cl, l)
			}
			if c.Sub >= 0 && j != c.Sub {
				continue
			}
			kind := "string"
			if isBin {
				kind = "binary"
			}
			if l == 0 && env.Avoid("C09", kind+".empty@"+pos) && !env.Replay {
				res.Skipped++
				continue
			}
			if s == "other" || s == "k" {
				continue
			}
			c09check(env, &res, c, j, pos, isBin, s)
		}
		res.Sample(map[string]interface{}{"kind": "strings/binaries at container positions", "seed": c.Seed, "count": c.Count})
	case "big":
		for j := 0; j < c.Count; j++ {
			r := rand.New(rand.NewSource(Mix(c.Seed, j)))
			l := 60000 + r.Intn(200000)
			if j == 0 {
				l = 65535 + r.Intn(3)
			}
			cl := strClasses[r.Intn(len(strClasses))]
			if c.Sub >= 0 && j != c.Sub {
				continue
			}
			if r.Intn(2) == 0 {
				c09check(env, &res, c, j, "top", false, strOfClass(r, cl, l))
			} else {
				b := make([]byte, l*4)
				r.Read(b)
				c09check(env, &res, c, j, "top", true, string(b))
			}
		}
		res.Sample(map[string]interface{}{"kind": "large random contents (up to 1 MiB)", "seed": c.Seed, "count": c.Count})
	}
	return res
}
