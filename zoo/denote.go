package zoo

import (
	"fmt"
	"reflect"
	"strings"
	"time"
	"unsafe"

	"verif/hspec"
)

// GoTypeName is the key the documented API uses for a Go type in a name map:
// the bare type name, or the type expression for unnamed types.
func GoTypeName(t reflect.Type) string {
	if n := t.Name(); n != "" {
		return n
	}
	return t.String()
}

func lowerFirst(s string) string {
	if s != "" && s[0] >= 'A' && s[0] <= 'Z' {
		return string(s[0]+32) + s[1:]
	}
	return s
}

func rootElemIsInterface(t reflect.Type) bool {
	for n := 0; n < 64 && (t.Kind() == reflect.Slice || t.Kind() == reflect.Array || t.Kind() == reflect.Ptr); n++ {
		t = t.Elem() // bounded: a self-referential list type (type T []T) has no root element
	}
	return t.Kind() == reflect.Interface
}

// UnixMilli of a time computed with integer arithmetic on (sec, nsec): no int64-ns overflow.
func UnixMilli(t time.Time) int64 {
	return t.Unix()*1000 + int64(t.Nanosecond())/1e6
}

type denoter struct {
	names map[string]string
	ptrs  map[unsafe.Pointer]*hspec.Value
	maps  map[unsafe.Pointer]*hspec.Value
	depth int
}

// Denote maps a Go value to the abstract Hessian value the documented
// Go<->Hessian mapping intends for it.
func Denote(v interface{}, nameMap map[string]string) *hspec.Value {
	d := &denoter{names: nameMap, ptrs: map[unsafe.Pointer]*hspec.Value{}, maps: map[unsafe.Pointer]*hspec.Value{}}
	if v == nil {
		return hspec.Null()
	}
	return d.val(reflect.ValueOf(v))
}

func (d *denoter) val(v reflect.Value) *hspec.Value {
	if !v.IsValid() {
		return hspec.Null()
	}
	// a decoded []interface{} or map may contain itself: fail recoverably instead of overflowing the stack
	d.depth++
	defer func() { d.depth-- }()
	if d.depth > 100000 {
		panic("zoo.Denote: value nested deeper than 100000 (self-containing container?)")
	}
	t := v.Type()
	switch t.Kind() {
	case reflect.Interface:
		if v.IsNil() {
			return hspec.Null()
		}
		return d.val(v.Elem())
	case reflect.Ptr:
		if v.IsNil() {
			return hspec.Null()
		}
		if t.Elem().Kind() == reflect.Struct && t.Elem() != TimeType {
			key := unsafe.Pointer(v.Pointer())
			if n, ok := d.ptrs[key]; ok {
				return n
			}
			n := &hspec.Value{Kind: hspec.KObject, Ord: -1, Ident: true}
			d.ptrs[key] = n
			d.object(n, v.Elem())
			return n
		}
		return d.val(v.Elem())
	case reflect.Bool:
		return hspec.Bool(v.Bool())
	case reflect.Int, reflect.Int8, reflect.Int16, reflect.Int32:
		if v.Int() != int64(int32(v.Int())) {
			return hspec.Long(v.Int()) // beyond the wire int: exact carriage needs a long
		}
		return hspec.Int(int32(v.Int()))
	case reflect.Uint8, reflect.Uint16:
		return hspec.Int(int32(v.Uint()))
	case reflect.Int64:
		return hspec.Long(v.Int())
	case reflect.Uint, reflect.Uint32, reflect.Uint64:
		return hspec.Long(int64(v.Uint()))
	case reflect.Float32, reflect.Float64:
		return hspec.Double(v.Float())
	case reflect.String:
		return hspec.String(v.String())
	case reflect.Struct:
		if t == TimeType {
			tm := v.Interface().(time.Time)
			if tm.IsZero() {
				return hspec.Null()
			}
			return hspec.Date(UnixMilli(tm))
		}
		n := &hspec.Value{Kind: hspec.KObject, Ord: -1}
		d.object(n, v)
		return n
	case reflect.Slice, reflect.Array:
		if t == reflect.TypeOf([]byte(nil)) {
			// the unnamed []byte is binary; a NAMED byte-slice type goes the way of every
			// other slice (a list under its registered name), as the documented kind table says
			return hspec.Binary(append([]byte{}, v.Bytes()...))
		}
		typ := ""
		if reg, ok := d.names[GoTypeName(t)]; ok && !rootElemIsInterface(t) {
			typ = reg
		}
		l := hspec.List(typ)
		l.Elems = []*hspec.Value{}
		for i := 0; i < v.Len(); i++ {
			l.Elems = append(l.Elems, d.val(v.Index(i)))
		}
		return l
	case reflect.Map:
		// a non-empty map reached over two paths is one node (maps are reference values)
		if v.Len() > 0 {
			key := unsafe.Pointer(v.Pointer())
			if n, ok := d.maps[key]; ok {
				return n
			}
		}
		m := hspec.Map("")
		if v.Len() > 0 {
			d.maps[unsafe.Pointer(v.Pointer())] = m
		}
		if reg, ok := d.names[t.Name()]; ok && t.Name() != "" {
			m.Type = reg
			m.MapTyped = true
		}
		m.Elems = []*hspec.Value{}
		for _, k := range v.MapKeys() {
			m.Elems = append(m.Elems, d.val(k), d.val(v.MapIndex(k)))
		}
		return m
	}
	panic(fmt.Sprintf("zoo.Denote: unsupported kind %v", t.Kind()))
}

func (d *denoter) object(n *hspec.Value, v reflect.Value) {
	t := v.Type()
	cls := t.Name()
	if reg, ok := d.names[t.Name()]; ok {
		cls = reg
	}
	n.Type = cls
	for i := 0; i < t.NumField(); i++ {
		n.Fields = append(n.Fields, lowerFirst(t.Field(i).Name))
	}
	n.Elems = make([]*hspec.Value, 0, t.NumField())
	for i := 0; i < t.NumField(); i++ {
		n.Elems = append(n.Elems, d.val(v.Field(i)))
	}
}

// Describe renders a Go value briefly for evidence samples and messages.
func Describe(v interface{}) string {
	s := fmt.Sprintf("%T %+v", v, v)
	s = strings.ReplaceAll(s, "\n", " ")
	if len(s) > 300 {
		s = s[:300] + "..."
	}
	return s
}
