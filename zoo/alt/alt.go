// Package alt holds types whose short names clash with types of package zoo
// (the library keys its maps by bare type name; used for termination checks only).
package alt

type Inner struct {
	X, Y int32
}
