// Code generated for the class-count cases (more classes on one stream than one octet can number). DO NOT EDIT.
package zoo

import "reflect"

type M000 struct{ A int32 }
type M001 struct{ A int32 }
type M002 struct{ A int32 }
type M003 struct{ A int32 }
type M004 struct{ A int32 }
type M005 struct{ A int32 }
type M006 struct{ A int32 }
type M007 struct{ A int32 }
type M008 struct{ A int32 }
type M009 struct{ A int32 }
type M010 struct{ A int32 }
type M011 struct{ A int32 }
type M012 struct{ A int32 }
type M013 struct{ A int32 }
type M014 struct{ A int32 }
type M015 struct{ A int32 }
type M016 struct{ A int32 }
type M017 struct{ A int32 }
type M018 struct{ A int32 }
type M019 struct{ A int32 }
type M020 struct{ A int32 }
type M021 struct{ A int32 }
type M022 struct{ A int32 }
type M023 struct{ A int32 }
type M024 struct{ A int32 }
type M025 struct{ A int32 }
type M026 struct{ A int32 }
type M027 struct{ A int32 }
type M028 struct{ A int32 }
type M029 struct{ A int32 }
type M030 struct{ A int32 }
type M031 struct{ A int32 }
type M032 struct{ A int32 }
type M033 struct{ A int32 }
type M034 struct{ A int32 }
type M035 struct{ A int32 }
type M036 struct{ A int32 }
type M037 struct{ A int32 }
type M038 struct{ A int32 }
type M039 struct{ A int32 }
type M040 struct{ A int32 }
type M041 struct{ A int32 }
type M042 struct{ A int32 }
type M043 struct{ A int32 }
type M044 struct{ A int32 }
type M045 struct{ A int32 }
type M046 struct{ A int32 }
type M047 struct{ A int32 }
type M048 struct{ A int32 }
type M049 struct{ A int32 }
type M050 struct{ A int32 }
type M051 struct{ A int32 }
type M052 struct{ A int32 }
type M053 struct{ A int32 }
type M054 struct{ A int32 }
type M055 struct{ A int32 }
type M056 struct{ A int32 }
type M057 struct{ A int32 }
type M058 struct{ A int32 }
type M059 struct{ A int32 }
type M060 struct{ A int32 }
type M061 struct{ A int32 }
type M062 struct{ A int32 }
type M063 struct{ A int32 }
type M064 struct{ A int32 }
type M065 struct{ A int32 }
type M066 struct{ A int32 }
type M067 struct{ A int32 }
type M068 struct{ A int32 }
type M069 struct{ A int32 }
type M070 struct{ A int32 }
type M071 struct{ A int32 }
type M072 struct{ A int32 }
type M073 struct{ A int32 }
type M074 struct{ A int32 }
type M075 struct{ A int32 }
type M076 struct{ A int32 }
type M077 struct{ A int32 }
type M078 struct{ A int32 }
type M079 struct{ A int32 }
type M080 struct{ A int32 }
type M081 struct{ A int32 }
type M082 struct{ A int32 }
type M083 struct{ A int32 }
type M084 struct{ A int32 }
type M085 struct{ A int32 }
type M086 struct{ A int32 }
type M087 struct{ A int32 }
type M088 struct{ A int32 }
type M089 struct{ A int32 }
type M090 struct{ A int32 }
type M091 struct{ A int32 }
type M092 struct{ A int32 }
type M093 struct{ A int32 }
type M094 struct{ A int32 }
type M095 struct{ A int32 }
type M096 struct{ A int32 }
type M097 struct{ A int32 }
type M098 struct{ A int32 }
type M099 struct{ A int32 }
type M100 struct{ A int32 }
type M101 struct{ A int32 }
type M102 struct{ A int32 }
type M103 struct{ A int32 }
type M104 struct{ A int32 }
type M105 struct{ A int32 }
type M106 struct{ A int32 }
type M107 struct{ A int32 }
type M108 struct{ A int32 }
type M109 struct{ A int32 }
type M110 struct{ A int32 }
type M111 struct{ A int32 }
type M112 struct{ A int32 }
type M113 struct{ A int32 }
type M114 struct{ A int32 }
type M115 struct{ A int32 }
type M116 struct{ A int32 }
type M117 struct{ A int32 }
type M118 struct{ A int32 }
type M119 struct{ A int32 }
type M120 struct{ A int32 }
type M121 struct{ A int32 }
type M122 struct{ A int32 }
type M123 struct{ A int32 }
type M124 struct{ A int32 }
type M125 struct{ A int32 }
type M126 struct{ A int32 }
type M127 struct{ A int32 }
type M128 struct{ A int32 }
type M129 struct{ A int32 }
type M130 struct{ A int32 }
type M131 struct{ A int32 }
type M132 struct{ A int32 }
type M133 struct{ A int32 }
type M134 struct{ A int32 }
type M135 struct{ A int32 }
type M136 struct{ A int32 }
type M137 struct{ A int32 }
type M138 struct{ A int32 }
type M139 struct{ A int32 }
type M140 struct{ A int32 }
type M141 struct{ A int32 }
type M142 struct{ A int32 }
type M143 struct{ A int32 }
type M144 struct{ A int32 }
type M145 struct{ A int32 }
type M146 struct{ A int32 }
type M147 struct{ A int32 }
type M148 struct{ A int32 }
type M149 struct{ A int32 }
type M150 struct{ A int32 }
type M151 struct{ A int32 }
type M152 struct{ A int32 }
type M153 struct{ A int32 }
type M154 struct{ A int32 }
type M155 struct{ A int32 }
type M156 struct{ A int32 }
type M157 struct{ A int32 }
type M158 struct{ A int32 }
type M159 struct{ A int32 }
type M160 struct{ A int32 }
type M161 struct{ A int32 }
type M162 struct{ A int32 }
type M163 struct{ A int32 }
type M164 struct{ A int32 }
type M165 struct{ A int32 }
type M166 struct{ A int32 }
type M167 struct{ A int32 }
type M168 struct{ A int32 }
type M169 struct{ A int32 }
type M170 struct{ A int32 }
type M171 struct{ A int32 }
type M172 struct{ A int32 }
type M173 struct{ A int32 }
type M174 struct{ A int32 }
type M175 struct{ A int32 }
type M176 struct{ A int32 }
type M177 struct{ A int32 }
type M178 struct{ A int32 }
type M179 struct{ A int32 }
type M180 struct{ A int32 }
type M181 struct{ A int32 }
type M182 struct{ A int32 }
type M183 struct{ A int32 }
type M184 struct{ A int32 }
type M185 struct{ A int32 }
type M186 struct{ A int32 }
type M187 struct{ A int32 }
type M188 struct{ A int32 }
type M189 struct{ A int32 }
type M190 struct{ A int32 }
type M191 struct{ A int32 }
type M192 struct{ A int32 }
type M193 struct{ A int32 }
type M194 struct{ A int32 }
type M195 struct{ A int32 }
type M196 struct{ A int32 }
type M197 struct{ A int32 }
type M198 struct{ A int32 }
type M199 struct{ A int32 }
type M200 struct{ A int32 }
type M201 struct{ A int32 }
type M202 struct{ A int32 }
type M203 struct{ A int32 }
type M204 struct{ A int32 }
type M205 struct{ A int32 }
type M206 struct{ A int32 }
type M207 struct{ A int32 }
type M208 struct{ A int32 }
type M209 struct{ A int32 }
type M210 struct{ A int32 }
type M211 struct{ A int32 }
type M212 struct{ A int32 }
type M213 struct{ A int32 }
type M214 struct{ A int32 }
type M215 struct{ A int32 }
type M216 struct{ A int32 }
type M217 struct{ A int32 }
type M218 struct{ A int32 }
type M219 struct{ A int32 }
type M220 struct{ A int32 }
type M221 struct{ A int32 }
type M222 struct{ A int32 }
type M223 struct{ A int32 }
type M224 struct{ A int32 }
type M225 struct{ A int32 }
type M226 struct{ A int32 }
type M227 struct{ A int32 }
type M228 struct{ A int32 }
type M229 struct{ A int32 }
type M230 struct{ A int32 }
type M231 struct{ A int32 }
type M232 struct{ A int32 }
type M233 struct{ A int32 }
type M234 struct{ A int32 }
type M235 struct{ A int32 }
type M236 struct{ A int32 }
type M237 struct{ A int32 }
type M238 struct{ A int32 }
type M239 struct{ A int32 }
type M240 struct{ A int32 }
type M241 struct{ A int32 }
type M242 struct{ A int32 }
type M243 struct{ A int32 }
type M244 struct{ A int32 }
type M245 struct{ A int32 }
type M246 struct{ A int32 }
type M247 struct{ A int32 }
type M248 struct{ A int32 }
type M249 struct{ A int32 }
type M250 struct{ A int32 }
type M251 struct{ A int32 }
type M252 struct{ A int32 }
type M253 struct{ A int32 }
type M254 struct{ A int32 }
type M255 struct{ A int32 }
type M256 struct{ A int32 }
type M257 struct{ A int32 }
type M258 struct{ A int32 }
type M259 struct{ A int32 }
type M260 struct{ A int32 }
type M261 struct{ A int32 }
type M262 struct{ A int32 }
type M263 struct{ A int32 }
type M264 struct{ A int32 }
type M265 struct{ A int32 }
type M266 struct{ A int32 }
type M267 struct{ A int32 }
type M268 struct{ A int32 }
type M269 struct{ A int32 }
type M270 struct{ A int32 }
type M271 struct{ A int32 }
type M272 struct{ A int32 }
type M273 struct{ A int32 }
type M274 struct{ A int32 }
type M275 struct{ A int32 }
type M276 struct{ A int32 }
type M277 struct{ A int32 }
type M278 struct{ A int32 }
type M279 struct{ A int32 }
type M280 struct{ A int32 }
type M281 struct{ A int32 }
type M282 struct{ A int32 }
type M283 struct{ A int32 }
type M284 struct{ A int32 }
type M285 struct{ A int32 }
type M286 struct{ A int32 }
type M287 struct{ A int32 }
type M288 struct{ A int32 }
type M289 struct{ A int32 }
type M290 struct{ A int32 }
type M291 struct{ A int32 }
type M292 struct{ A int32 }
type M293 struct{ A int32 }
type M294 struct{ A int32 }
type M295 struct{ A int32 }
type M296 struct{ A int32 }
type M297 struct{ A int32 }
type M298 struct{ A int32 }
type M299 struct{ A int32 }
type M300 struct{ A int32 }
type M301 struct{ A int32 }
type M302 struct{ A int32 }
type M303 struct{ A int32 }
type M304 struct{ A int32 }
type M305 struct{ A int32 }
type M306 struct{ A int32 }
type M307 struct{ A int32 }
type M308 struct{ A int32 }
type M309 struct{ A int32 }
type M310 struct{ A int32 }
type M311 struct{ A int32 }
type M312 struct{ A int32 }
type M313 struct{ A int32 }
type M314 struct{ A int32 }
type M315 struct{ A int32 }
type M316 struct{ A int32 }
type M317 struct{ A int32 }
type M318 struct{ A int32 }
type M319 struct{ A int32 }
type M320 struct{ A int32 }
type M321 struct{ A int32 }
type M322 struct{ A int32 }
type M323 struct{ A int32 }
type M324 struct{ A int32 }
type M325 struct{ A int32 }
type M326 struct{ A int32 }
type M327 struct{ A int32 }
type M328 struct{ A int32 }
type M329 struct{ A int32 }
type M330 struct{ A int32 }
type M331 struct{ A int32 }
type M332 struct{ A int32 }
type M333 struct{ A int32 }
type M334 struct{ A int32 }
type M335 struct{ A int32 }
type M336 struct{ A int32 }
type M337 struct{ A int32 }
type M338 struct{ A int32 }
type M339 struct{ A int32 }
type M340 struct{ A int32 }
type M341 struct{ A int32 }
type M342 struct{ A int32 }
type M343 struct{ A int32 }
type M344 struct{ A int32 }
type M345 struct{ A int32 }
type M346 struct{ A int32 }
type M347 struct{ A int32 }
type M348 struct{ A int32 }
type M349 struct{ A int32 }
type M350 struct{ A int32 }
type M351 struct{ A int32 }
type M352 struct{ A int32 }
type M353 struct{ A int32 }
type M354 struct{ A int32 }
type M355 struct{ A int32 }
type M356 struct{ A int32 }
type M357 struct{ A int32 }
type M358 struct{ A int32 }
type M359 struct{ A int32 }
type M360 struct{ A int32 }
type M361 struct{ A int32 }
type M362 struct{ A int32 }
type M363 struct{ A int32 }
type M364 struct{ A int32 }
type M365 struct{ A int32 }
type M366 struct{ A int32 }
type M367 struct{ A int32 }
type M368 struct{ A int32 }
type M369 struct{ A int32 }
type M370 struct{ A int32 }
type M371 struct{ A int32 }
type M372 struct{ A int32 }
type M373 struct{ A int32 }
type M374 struct{ A int32 }
type M375 struct{ A int32 }
type M376 struct{ A int32 }
type M377 struct{ A int32 }
type M378 struct{ A int32 }
type M379 struct{ A int32 }
type M380 struct{ A int32 }
type M381 struct{ A int32 }
type M382 struct{ A int32 }
type M383 struct{ A int32 }
type M384 struct{ A int32 }
type M385 struct{ A int32 }
type M386 struct{ A int32 }
type M387 struct{ A int32 }
type M388 struct{ A int32 }
type M389 struct{ A int32 }
type M390 struct{ A int32 }
type M391 struct{ A int32 }
type M392 struct{ A int32 }
type M393 struct{ A int32 }
type M394 struct{ A int32 }
type M395 struct{ A int32 }
type M396 struct{ A int32 }
type M397 struct{ A int32 }
type M398 struct{ A int32 }
type M399 struct{ A int32 }
type M400 struct{ A int32 }
type M401 struct{ A int32 }
type M402 struct{ A int32 }
type M403 struct{ A int32 }
type M404 struct{ A int32 }
type M405 struct{ A int32 }
type M406 struct{ A int32 }
type M407 struct{ A int32 }
type M408 struct{ A int32 }
type M409 struct{ A int32 }
type M410 struct{ A int32 }
type M411 struct{ A int32 }
type M412 struct{ A int32 }
type M413 struct{ A int32 }
type M414 struct{ A int32 }
type M415 struct{ A int32 }
type M416 struct{ A int32 }
type M417 struct{ A int32 }
type M418 struct{ A int32 }
type M419 struct{ A int32 }
type M420 struct{ A int32 }
type M421 struct{ A int32 }
type M422 struct{ A int32 }
type M423 struct{ A int32 }
type M424 struct{ A int32 }
type M425 struct{ A int32 }
type M426 struct{ A int32 }
type M427 struct{ A int32 }
type M428 struct{ A int32 }
type M429 struct{ A int32 }
type M430 struct{ A int32 }
type M431 struct{ A int32 }
type M432 struct{ A int32 }
type M433 struct{ A int32 }
type M434 struct{ A int32 }
type M435 struct{ A int32 }
type M436 struct{ A int32 }
type M437 struct{ A int32 }
type M438 struct{ A int32 }
type M439 struct{ A int32 }
type M440 struct{ A int32 }
type M441 struct{ A int32 }
type M442 struct{ A int32 }
type M443 struct{ A int32 }
type M444 struct{ A int32 }
type M445 struct{ A int32 }
type M446 struct{ A int32 }
type M447 struct{ A int32 }
type M448 struct{ A int32 }
type M449 struct{ A int32 }
type M450 struct{ A int32 }
type M451 struct{ A int32 }
type M452 struct{ A int32 }
type M453 struct{ A int32 }
type M454 struct{ A int32 }
type M455 struct{ A int32 }
type M456 struct{ A int32 }
type M457 struct{ A int32 }
type M458 struct{ A int32 }
type M459 struct{ A int32 }
type M460 struct{ A int32 }
type M461 struct{ A int32 }
type M462 struct{ A int32 }
type M463 struct{ A int32 }
type M464 struct{ A int32 }
type M465 struct{ A int32 }
type M466 struct{ A int32 }
type M467 struct{ A int32 }
type M468 struct{ A int32 }
type M469 struct{ A int32 }
type M470 struct{ A int32 }
type M471 struct{ A int32 }
type M472 struct{ A int32 }
type M473 struct{ A int32 }
type M474 struct{ A int32 }
type M475 struct{ A int32 }
type M476 struct{ A int32 }
type M477 struct{ A int32 }
type M478 struct{ A int32 }
type M479 struct{ A int32 }
type M480 struct{ A int32 }
type M481 struct{ A int32 }
type M482 struct{ A int32 }
type M483 struct{ A int32 }
type M484 struct{ A int32 }
type M485 struct{ A int32 }
type M486 struct{ A int32 }
type M487 struct{ A int32 }
type M488 struct{ A int32 }
type M489 struct{ A int32 }
type M490 struct{ A int32 }
type M491 struct{ A int32 }
type M492 struct{ A int32 }
type M493 struct{ A int32 }
type M494 struct{ A int32 }
type M495 struct{ A int32 }
type M496 struct{ A int32 }
type M497 struct{ A int32 }
type M498 struct{ A int32 }
type M499 struct{ A int32 }
type M500 struct{ A int32 }
type M501 struct{ A int32 }
type M502 struct{ A int32 }
type M503 struct{ A int32 }
type M504 struct{ A int32 }
type M505 struct{ A int32 }
type M506 struct{ A int32 }
type M507 struct{ A int32 }
type M508 struct{ A int32 }
type M509 struct{ A int32 }
type M510 struct{ A int32 }
type M511 struct{ A int32 }
type M512 struct{ A int32 }
type M513 struct{ A int32 }
type M514 struct{ A int32 }
type M515 struct{ A int32 }
type M516 struct{ A int32 }
type M517 struct{ A int32 }
type M518 struct{ A int32 }
type M519 struct{ A int32 }
type M520 struct{ A int32 }
type M521 struct{ A int32 }
type M522 struct{ A int32 }
type M523 struct{ A int32 }
type M524 struct{ A int32 }
type M525 struct{ A int32 }
type M526 struct{ A int32 }
type M527 struct{ A int32 }
type M528 struct{ A int32 }
type M529 struct{ A int32 }

// ManyHolder has one pointer field per type: the classes of the non-nil fields are defined on the stream in field order.
type ManyHolder struct {
	F000 *M000
	F001 *M001
	F002 *M002
	F003 *M003
	F004 *M004
	F005 *M005
	F006 *M006
	F007 *M007
	F008 *M008
	F009 *M009
	F010 *M010
	F011 *M011
	F012 *M012
	F013 *M013
	F014 *M014
	F015 *M015
	F016 *M016
	F017 *M017
	F018 *M018
	F019 *M019
	F020 *M020
	F021 *M021
	F022 *M022
	F023 *M023
	F024 *M024
	F025 *M025
	F026 *M026
	F027 *M027
	F028 *M028
	F029 *M029
	F030 *M030
	F031 *M031
	F032 *M032
	F033 *M033
	F034 *M034
	F035 *M035
	F036 *M036
	F037 *M037
	F038 *M038
	F039 *M039
	F040 *M040
	F041 *M041
	F042 *M042
	F043 *M043
	F044 *M044
	F045 *M045
	F046 *M046
	F047 *M047
	F048 *M048
	F049 *M049
	F050 *M050
	F051 *M051
	F052 *M052
	F053 *M053
	F054 *M054
	F055 *M055
	F056 *M056
	F057 *M057
	F058 *M058
	F059 *M059
	F060 *M060
	F061 *M061
	F062 *M062
	F063 *M063
	F064 *M064
	F065 *M065
	F066 *M066
	F067 *M067
	F068 *M068
	F069 *M069
	F070 *M070
	F071 *M071
	F072 *M072
	F073 *M073
	F074 *M074
	F075 *M075
	F076 *M076
	F077 *M077
	F078 *M078
	F079 *M079
	F080 *M080
	F081 *M081
	F082 *M082
	F083 *M083
	F084 *M084
	F085 *M085
	F086 *M086
	F087 *M087
	F088 *M088
	F089 *M089
	F090 *M090
	F091 *M091
	F092 *M092
	F093 *M093
	F094 *M094
	F095 *M095
	F096 *M096
	F097 *M097
	F098 *M098
	F099 *M099
	F100 *M100
	F101 *M101
	F102 *M102
	F103 *M103
	F104 *M104
	F105 *M105
	F106 *M106
	F107 *M107
	F108 *M108
	F109 *M109
	F110 *M110
	F111 *M111
	F112 *M112
	F113 *M113
	F114 *M114
	F115 *M115
	F116 *M116
	F117 *M117
	F118 *M118
	F119 *M119
	F120 *M120
	F121 *M121
	F122 *M122
	F123 *M123
	F124 *M124
	F125 *M125
	F126 *M126
	F127 *M127
	F128 *M128
	F129 *M129
	F130 *M130
	F131 *M131
	F132 *M132
	F133 *M133
	F134 *M134
	F135 *M135
	F136 *M136
	F137 *M137
	F138 *M138
	F139 *M139
	F140 *M140
	F141 *M141
	F142 *M142
	F143 *M143
	F144 *M144
	F145 *M145
	F146 *M146
	F147 *M147
	F148 *M148
	F149 *M149
	F150 *M150
	F151 *M151
	F152 *M152
	F153 *M153
	F154 *M154
	F155 *M155
	F156 *M156
	F157 *M157
	F158 *M158
	F159 *M159
	F160 *M160
	F161 *M161
	F162 *M162
	F163 *M163
	F164 *M164
	F165 *M165
	F166 *M166
	F167 *M167
	F168 *M168
	F169 *M169
	F170 *M170
	F171 *M171
	F172 *M172
	F173 *M173
	F174 *M174
	F175 *M175
	F176 *M176
	F177 *M177
	F178 *M178
	F179 *M179
	F180 *M180
	F181 *M181
	F182 *M182
	F183 *M183
	F184 *M184
	F185 *M185
	F186 *M186
	F187 *M187
	F188 *M188
	F189 *M189
	F190 *M190
	F191 *M191
	F192 *M192
	F193 *M193
	F194 *M194
	F195 *M195
	F196 *M196
	F197 *M197
	F198 *M198
	F199 *M199
	F200 *M200
	F201 *M201
	F202 *M202
	F203 *M203
	F204 *M204
	F205 *M205
	F206 *M206
	F207 *M207
	F208 *M208
	F209 *M209
	F210 *M210
	F211 *M211
	F212 *M212
	F213 *M213
	F214 *M214
	F215 *M215
	F216 *M216
	F217 *M217
	F218 *M218
	F219 *M219
	F220 *M220
	F221 *M221
	F222 *M222
	F223 *M223
	F224 *M224
	F225 *M225
	F226 *M226
	F227 *M227
	F228 *M228
	F229 *M229
	F230 *M230
	F231 *M231
	F232 *M232
	F233 *M233
	F234 *M234
	F235 *M235
	F236 *M236
	F237 *M237
	F238 *M238
	F239 *M239
	F240 *M240
	F241 *M241
	F242 *M242
	F243 *M243
	F244 *M244
	F245 *M245
	F246 *M246
	F247 *M247
	F248 *M248
	F249 *M249
	F250 *M250
	F251 *M251
	F252 *M252
	F253 *M253
	F254 *M254
	F255 *M255
	F256 *M256
	F257 *M257
	F258 *M258
	F259 *M259
	F260 *M260
	F261 *M261
	F262 *M262
	F263 *M263
	F264 *M264
	F265 *M265
	F266 *M266
	F267 *M267
	F268 *M268
	F269 *M269
	F270 *M270
	F271 *M271
	F272 *M272
	F273 *M273
	F274 *M274
	F275 *M275
	F276 *M276
	F277 *M277
	F278 *M278
	F279 *M279
	F280 *M280
	F281 *M281
	F282 *M282
	F283 *M283
	F284 *M284
	F285 *M285
	F286 *M286
	F287 *M287
	F288 *M288
	F289 *M289
	F290 *M290
	F291 *M291
	F292 *M292
	F293 *M293
	F294 *M294
	F295 *M295
	F296 *M296
	F297 *M297
	F298 *M298
	F299 *M299
	F300 *M300
	F301 *M301
	F302 *M302
	F303 *M303
	F304 *M304
	F305 *M305
	F306 *M306
	F307 *M307
	F308 *M308
	F309 *M309
	F310 *M310
	F311 *M311
	F312 *M312
	F313 *M313
	F314 *M314
	F315 *M315
	F316 *M316
	F317 *M317
	F318 *M318
	F319 *M319
	F320 *M320
	F321 *M321
	F322 *M322
	F323 *M323
	F324 *M324
	F325 *M325
	F326 *M326
	F327 *M327
	F328 *M328
	F329 *M329
	F330 *M330
	F331 *M331
	F332 *M332
	F333 *M333
	F334 *M334
	F335 *M335
	F336 *M336
	F337 *M337
	F338 *M338
	F339 *M339
	F340 *M340
	F341 *M341
	F342 *M342
	F343 *M343
	F344 *M344
	F345 *M345
	F346 *M346
	F347 *M347
	F348 *M348
	F349 *M349
	F350 *M350
	F351 *M351
	F352 *M352
	F353 *M353
	F354 *M354
	F355 *M355
	F356 *M356
	F357 *M357
	F358 *M358
	F359 *M359
	F360 *M360
	F361 *M361
	F362 *M362
	F363 *M363
	F364 *M364
	F365 *M365
	F366 *M366
	F367 *M367
	F368 *M368
	F369 *M369
	F370 *M370
	F371 *M371
	F372 *M372
	F373 *M373
	F374 *M374
	F375 *M375
	F376 *M376
	F377 *M377
	F378 *M378
	F379 *M379
	F380 *M380
	F381 *M381
	F382 *M382
	F383 *M383
	F384 *M384
	F385 *M385
	F386 *M386
	F387 *M387
	F388 *M388
	F389 *M389
	F390 *M390
	F391 *M391
	F392 *M392
	F393 *M393
	F394 *M394
	F395 *M395
	F396 *M396
	F397 *M397
	F398 *M398
	F399 *M399
	F400 *M400
	F401 *M401
	F402 *M402
	F403 *M403
	F404 *M404
	F405 *M405
	F406 *M406
	F407 *M407
	F408 *M408
	F409 *M409
	F410 *M410
	F411 *M411
	F412 *M412
	F413 *M413
	F414 *M414
	F415 *M415
	F416 *M416
	F417 *M417
	F418 *M418
	F419 *M419
	F420 *M420
	F421 *M421
	F422 *M422
	F423 *M423
	F424 *M424
	F425 *M425
	F426 *M426
	F427 *M427
	F428 *M428
	F429 *M429
	F430 *M430
	F431 *M431
	F432 *M432
	F433 *M433
	F434 *M434
	F435 *M435
	F436 *M436
	F437 *M437
	F438 *M438
	F439 *M439
	F440 *M440
	F441 *M441
	F442 *M442
	F443 *M443
	F444 *M444
	F445 *M445
	F446 *M446
	F447 *M447
	F448 *M448
	F449 *M449
	F450 *M450
	F451 *M451
	F452 *M452
	F453 *M453
	F454 *M454
	F455 *M455
	F456 *M456
	F457 *M457
	F458 *M458
	F459 *M459
	F460 *M460
	F461 *M461
	F462 *M462
	F463 *M463
	F464 *M464
	F465 *M465
	F466 *M466
	F467 *M467
	F468 *M468
	F469 *M469
	F470 *M470
	F471 *M471
	F472 *M472
	F473 *M473
	F474 *M474
	F475 *M475
	F476 *M476
	F477 *M477
	F478 *M478
	F479 *M479
	F480 *M480
	F481 *M481
	F482 *M482
	F483 *M483
	F484 *M484
	F485 *M485
	F486 *M486
	F487 *M487
	F488 *M488
	F489 *M489
	F490 *M490
	F491 *M491
	F492 *M492
	F493 *M493
	F494 *M494
	F495 *M495
	F496 *M496
	F497 *M497
	F498 *M498
	F499 *M499
	F500 *M500
	F501 *M501
	F502 *M502
	F503 *M503
	F504 *M504
	F505 *M505
	F506 *M506
	F507 *M507
	F508 *M508
	F509 *M509
	F510 *M510
	F511 *M511
	F512 *M512
	F513 *M513
	F514 *M514
	F515 *M515
	F516 *M516
	F517 *M517
	F518 *M518
	F519 *M519
	F520 *M520
	F521 *M521
	F522 *M522
	F523 *M523
	F524 *M524
	F525 *M525
	F526 *M526
	F527 *M527
	F528 *M528
	F529 *M529
	Tail int32
}

// ManyCount is the number of pointer fields of ManyHolder.
const ManyCount = 530

// SetMany sets pointer field i of h to a new value with A = a.
func SetMany(h *ManyHolder, i int, a int32) {
	f := reflect.ValueOf(h).Elem().Field(i)
	p := reflect.New(f.Type().Elem())
	p.Elem().Field(0).SetInt(int64(a))
	f.Set(p)
}
