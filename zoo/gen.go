package zoo

import (
	"math"
	"math/rand"
	"reflect"
	"strings"
	"time"
)

// Cfg are the knobs of the seeded generator.  Every knob that produces a
// named shape records a feature tag in Gen.Feat.
type Cfg struct {
	MaxLen   int   // upper bound for container lengths when Lens is empty
	MinLen   int   // lower bound for container lengths
	Lens     []int // table lengths are drawn from (with MaxLen as fallback)
	ForceLen int   // >=0: every first-level slice gets exactly this length
	MaxDepth int
	StrMax   int             // longest generated string (code points) outside tables
	Avoid    map[string]bool // features not to generate (open findings)
	NilProb  float64         // probability of nil pointers / nil containers
}

func DefaultCfg() Cfg {
	return Cfg{MaxLen: 12, ForceLen: -1, MaxDepth: 5, StrMax: 40, NilProb: 0.15, Avoid: map[string]bool{}}
}

type Gen struct {
	R    *rand.Rand
	C    Cfg
	Feat map[string]bool
	// pool of already generated *struct pointers per type, for sharing
	pool  map[reflect.Type][]reflect.Value
	Share float64 // probability of re-using an earlier pointer (cycles/diamonds)
	first bool
}

func NewGen(seed int64, c Cfg) *Gen {
	return &Gen{R: rand.New(rand.NewSource(seed)), C: c, Feat: map[string]bool{}, pool: map[reflect.Type][]reflect.Value{}}
}

func (g *Gen) avoid(f string) bool { return g.C.Avoid[f] }
func (g *Gen) mark(f string)       { g.Feat[f] = true }

var TimeType = reflect.TypeOf(time.Time{})
var bytesType = reflect.TypeOf([]byte(nil))

// Boundary tables --------------------------------------------------------

var I32Table = []int32{0, 1, -1, -16, -17, 47, 48, -2048, -2049, 2047, 2048, -262144, -262145, 262143, 262144, math.MinInt32, math.MaxInt32, 255, 256, 65535, 65536}
var I64Table = []int64{0, 1, -1, -8, -9, 15, 16, -2048, -2049, 2047, 2048, -262144, -262145, 262143, 262144, math.MinInt32, math.MaxInt32, math.MinInt32 - 1, math.MaxInt32 + 1, math.MinInt64, math.MaxInt64, 1 << 40, -(1 << 40)}
var F64Table = []float64{0, 1, -1, 2, 100, -100, 127, 128, -128, -129, 32767, 32768, -32768, -32769, 0.5, -0.5, 3.25, 1e10, 1.1, math.MaxFloat32, math.SmallestNonzeroFloat64, math.MaxFloat64, math.Inf(1), math.Inf(-1)}
var LenTable = []int{0, 1, 2, 3, 7, 8, 9, 15, 16, 17, 31, 32, 33, 255, 256, 257, 263, 264, 300, 600, 1023, 1024, 1025, 2100}
var StrLenTable = []int{0, 1, 2, 15, 16, 31, 32, 33, 255, 256, 1023, 1024, 1025, 2047, 2048, 2049, 4096, 4097}

var runeTable = []rune{'a', 'b', 'Z', '0', ' ', '_', 0x7f, 0x80, 0xe9, 0x7ff, 0x800, 0x4e16, 0xfffd, 0x10000, 0x1f600, 0x10ffff}

func (g *Gen) String(n int) string {
	var sb strings.Builder
	ascii := g.R.Intn(3) == 0
	for i := 0; i < n; i++ {
		if ascii {
			sb.WriteByte(byte('a' + g.R.Intn(26)))
		} else {
			sb.WriteRune(runeTable[g.R.Intn(len(runeTable))])
		}
	}
	return sb.String()
}

func (g *Gen) strLen() int {
	if g.R.Intn(6) == 0 {
		return StrLenTable[g.R.Intn(len(StrLenTable))]
	}
	return g.R.Intn(g.C.StrMax + 1)
}

func (g *Gen) length() int {
	if len(g.C.Lens) > 0 && g.R.Intn(3) == 0 {
		return g.C.Lens[g.R.Intn(len(g.C.Lens))]
	}
	n := g.R.Intn(g.C.MaxLen + 1)
	if n < g.C.MinLen {
		n = g.C.MinLen
	}
	return n
}

// Time returns a millisecond-aligned instant: mostly 1971..2037, one in five anywhere in years 1..9999.
func (g *Gen) Time() time.Time {
	for {
		sec := int64(31536000) + g.R.Int63n(2082758400-31536000)
		if g.R.Intn(5) == 0 && !g.avoid("time.far") {
			sec = -62135596700 + g.R.Int63n(253402300799+62135596700)
			g.mark("time.far")
		}
		ms := g.R.Int63n(1000)
		if g.R.Intn(5) == 0 {
			ms = 0
		}
		if ms == 0 {
			if g.avoid("time.wholesecond") {
				continue
			}
			g.mark("time.wholesecond")
		}
		t := time.Unix(sec, ms*1e6)
		// the same instant seen from another zone (a timestamp is an instant: the zone must not matter,
		// not even where the local year differs from the UTC year at the edges of the range)
		switch g.R.Intn(6) {
		case 0:
			t = t.In(time.FixedZone("east", 14*3600))
		case 1:
			t = t.In(time.FixedZone("west", -12*3600))
		case 2:
			t = t.UTC()
		}
		return t
	}
}

// Value generates a value of type t.
func (g *Gen) Value(t reflect.Type) reflect.Value {
	v := reflect.New(t).Elem()
	g.fill(v, 0, "top")
	return v
}

// pos: "top", "field", "elem", "mapkey", "mapval"
func (g *Gen) fill(v reflect.Value, depth int, pos string) {
	t := v.Type()
	switch t.Kind() {
	case reflect.Bool:
		v.SetBool(g.R.Intn(2) == 0)
	case reflect.Int8, reflect.Int16, reflect.Int32, reflect.Int:
		v.SetInt(g.int32For(t))
	case reflect.Int64:
		if g.R.Intn(3) == 0 {
			v.SetInt(I64Table[g.R.Intn(len(I64Table))])
		} else {
			v.SetInt(int64(g.R.Uint64()) >> uint(g.R.Intn(64)))
		}
	case reflect.Uint8, reflect.Uint16:
		max := uint64(1)<<uint(t.Bits()) - 1
		v.SetUint(uint64(g.R.Int63()) & max)
	case reflect.Uint32:
		v.SetUint(uint64(g.R.Uint32()))
	case reflect.Uint, reflect.Uint64:
		// stay inside int64 (beyond is C07's business)
		v.SetUint(uint64(g.R.Int63()) >> uint(g.R.Intn(63)))
	case reflect.Float32:
		v.SetFloat(float64(g.float32()))
	case reflect.Float64:
		v.SetFloat(g.float64())
	case reflect.String:
		v.SetString(g.stringFor(pos))
	case reflect.Interface:
		g.fillIface(v, depth, pos)
	case reflect.Ptr:
		g.fillPtr(v, depth, pos)
	case reflect.Struct:
		if t == TimeType {
			if pos != "top" && g.R.Float64() < 0.15 && !g.avoid("time.zero@"+pos) {
				g.mark("time.zero@" + pos)
				return // zero time
			}
			v.Set(reflect.ValueOf(g.Time()))
			return
		}
		for i := 0; i < t.NumField(); i++ {
			g.fill(v.Field(i), depth+1, "field")
		}
	case reflect.Slice:
		if t == bytesType || (t.Elem().Kind() == reflect.Uint8) {
			n := g.R.Intn(40)
			if g.R.Intn(6) == 0 {
				n = []int{0, 15, 16, 17, 1023, 1024, 4095, 4096, 4097}[g.R.Intn(9)]
			}
			if n == 0 && pos != "field" && pos != "top" {
				if g.avoid("bin.empty@" + pos) {
					n = 1
				} else {
					g.mark("bin.empty@" + pos)
				}
			}
			b := make([]byte, n)
			g.R.Read(b)
			if n == 0 && g.R.Intn(2) == 0 {
				b = nil
			}
			v.SetBytes(b)
			return
		}
		g.fillSlice(v, depth, pos)
	case reflect.Map:
		g.fillMap(v, depth, pos)
	}
}

func (g *Gen) int32For(t reflect.Type) int64 {
	bits := t.Bits()
	if t.Kind() == reflect.Int {
		bits = 32
	}
	var x int64
	if g.R.Intn(3) == 0 {
		x = int64(I32Table[g.R.Intn(len(I32Table))])
	} else {
		x = int64(int32(g.R.Uint32())) >> uint(g.R.Intn(32))
	}
	switch bits {
	case 8:
		return int64(int8(x))
	case 16:
		return int64(int16(x))
	}
	return x
}

func (g *Gen) float32() float32 {
	switch g.R.Intn(4) {
	case 0:
		return float32(g.R.Intn(2000)-1000) / 8
	case 1:
		return math.Float32frombits(g.R.Uint32()&0x7fbfffff | g.R.Uint32()&0x80000000) // no NaN
	}
	return float32(g.float64())
}

func (g *Gen) float64() float64 {
	for {
		var f float64
		switch g.R.Intn(6) {
		case 5:
			// at most 24 significant bits, any exponent of the double range (also far outside float32's)
			f = math.Ldexp(float64(g.R.Intn(1<<24)|1), g.R.Intn(2070)-1074)
			if g.R.Intn(2) == 0 {
				f = -f
			}
		case 0:
			f = F64Table[g.R.Intn(len(F64Table))]
		case 1:
			f = float64(g.R.Intn(140000) - 70000)
		case 2:
			f = float64(float32(g.R.NormFloat64() * 1000))
		case 3:
			f = g.R.NormFloat64() * math.Pow(10, float64(g.R.Intn(40)-20))
		default:
			f = float64(g.R.Intn(2000)-1000) / 16
		}
		if f == math.Trunc(f) && !math.IsInf(f, 0) && f != 0 && f != 1 {
			if g.avoid("double.integral") {
				continue
			}
			g.mark("double.integral")
		}
		return f
	}
}

func (g *Gen) stringFor(pos string) string {
	n := g.strLen()
	if n == 0 && (pos == "elem" || pos == "mapkey" || pos == "mapval") {
		if g.avoid("str.empty@" + pos) {
			n = 1 + g.R.Intn(5)
		} else {
			g.mark("str.empty@" + pos)
		}
	}
	return g.String(n)
}

func (g *Gen) fillPtr(v reflect.Value, depth int, pos string) {
	t := v.Type()
	nilOK := true
	if pos == "elem" || pos == "mapval" || pos == "mapkey" {
		if g.avoid("ptr.nil@" + pos) {
			nilOK = false
		}
	}
	if nilOK && (depth >= g.C.MaxDepth || g.R.Float64() < g.C.NilProb) {
		if pos == "elem" || pos == "mapval" {
			g.mark("ptr.nil@" + pos)
		}
		return
	}
	if depth >= g.C.MaxDepth+2 {
		// forced non-nil beyond the depth bound: re-use an existing pointer when possible
		if p := g.pool[t]; len(p) > 0 {
			v.Set(p[g.R.Intn(len(p))])
			g.mark("shared-ptr")
			return
		}
	}
	if p := g.pool[t]; len(p) > 0 && g.R.Float64() < g.Share {
		v.Set(p[g.R.Intn(len(p))])
		g.mark("shared-ptr")
		return
	}
	n := reflect.New(t.Elem())
	if t.Elem().Kind() == reflect.Struct {
		g.pool[t] = append(g.pool[t], n)
	}
	v.Set(n)
	g.fill(n.Elem(), depth+1, "field")
}

func (g *Gen) fillSlice(v reflect.Value, depth int, pos string) {
	t := v.Type()
	n := g.length()
	if g.C.ForceLen >= 0 && !g.first {
		n = g.C.ForceLen
		g.first = true
	} else if depth > 1 && n > 4 {
		n = g.R.Intn(5)
		if n < g.C.MinLen {
			n = g.C.MinLen
		}
	}
	if depth >= g.C.MaxDepth {
		n = 0
	}
	if n >= 256 && n <= 263 {
		if g.avoid("list.len256-263") {
			n = 264
		} else {
			g.mark("list.len256-263")
		}
	}
	if n == 0 {
		if pos != "field" && pos != "top" {
			if g.avoid("list.empty@" + pos) {
				n = 1
			} else {
				g.mark("list.empty@" + pos)
			}
		}
		if n == 0 {
			if g.R.Intn(2) == 0 {
				v.Set(reflect.MakeSlice(t, 0, 0))
			}
			return
		}
	}
	s := reflect.MakeSlice(t, n, n)
	for i := 0; i < n; i++ {
		g.fill(s.Index(i), depth+1, "elem")
	}
	v.Set(s)
}

func (g *Gen) fillMap(v reflect.Value, depth int, pos string) {
	t := v.Type()
	n := g.length()
	if n > 20 {
		n = 20
	}
	if depth > 1 && n > 3 {
		n = g.R.Intn(4)
		if n < g.C.MinLen {
			n = g.C.MinLen
		}
	}
	if depth >= g.C.MaxDepth {
		n = 0
	}
	if n == 0 {
		if pos != "field" && pos != "top" {
			if g.avoid("map.empty@" + pos) {
				n = 1
			} else {
				g.mark("map.empty@" + pos)
			}
		}
		if n == 0 {
			if g.R.Intn(2) == 0 {
				v.Set(reflect.MakeMap(t))
			}
			return
		}
	}
	m := reflect.MakeMap(t)
	for i := 0; i < n; i++ {
		k := reflect.New(t.Key()).Elem()
		g.fill(k, depth+1, "mapkey")
		e := reflect.New(t.Elem()).Elem()
		g.fill(e, depth+1, "mapval")
		m.SetMapIndex(k, e)
	}
	v.Set(m)
}

// interface{} positions are filled with values already in canonical wire
// type, so that the expected dynamic type after decoding is unambiguous.
func (g *Gen) fillIface(v reflect.Value, depth int, pos string) {
	max := 8
	if pos == "mapkey" {
		max = 3
	}
	switch g.R.Intn(max) {
	case 0:
		v.Set(reflect.ValueOf(int32(g.int32For(reflect.TypeOf(int32(0))))))
	case 1:
		v.Set(reflect.ValueOf(int64(g.R.Uint64()) >> uint(g.R.Intn(64))))
	case 2:
		s := g.stringFor(pos)
		if s == "" {
			s = "k"
		}
		v.Set(reflect.ValueOf(s))
	case 3:
		v.Set(reflect.ValueOf(g.R.Intn(2) == 0))
	case 4:
		v.Set(reflect.ValueOf(g.float64()))
	case 5:
		if true || g.avoid("iface.struct") { // structs in interface{} slots are outside the supported kinds (DESIGN 2.4)
			v.Set(reflect.ValueOf(int32(5)))
			return
		}
		g.mark("iface.struct")
		p := reflect.New(reflect.TypeOf(Inner{}))
		g.fill(p.Elem(), depth+1, "field")
		v.Set(p)
	case 6:
		if g.avoid("iface.time") {
			v.Set(reflect.ValueOf(int32(6)))
			return
		}
		g.mark("iface.time")
		v.Set(reflect.ValueOf(g.Time()))
	default:
		if g.avoid("iface.nil@" + pos) {
			v.Set(reflect.ValueOf(int32(7)))
			return
		}
		g.mark("iface.nil@" + pos)
		// nil
	}
}

// Features returns the sorted list of features marked so far.
func (g *Gen) Features() []string {
	out := make([]string, 0, len(g.Feat))
	for f := range g.Feat {
		out = append(out, f)
	}
	sortStrings(out)
	return out
}

func sortStrings(s []string) {
	for i := 1; i < len(s); i++ {
		for j := i; j > 0 && s[j] < s[j-1]; j-- {
			s[j], s[j-1] = s[j-1], s[j]
		}
	}
}
