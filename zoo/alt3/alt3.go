// Package alt3: a named MAP type called Inner (same short name as the struct zoo.Inner).
package alt3

type Inner map[string]int32
