// Package alt2: a type named Inner (same short name as zoo.Inner) with MORE fields.
package alt2

type Inner struct {
	X   int32
	Y   string
	Bad interface{}
}
