// Package zoo is the fixed zoo of declared Go types over which the
// input-quantified properties are explored.  Type names are unique because
// the library keys its maps by bare type name.
package zoo

import (
	"reflect"
	"time"
)

// ---- scalars

type Scalars struct {
	B   bool
	I   int
	I8  int8
	I16 int16
	I32 int32
	I64 int64
	U   uint
	U8  uint8
	U16 uint16
	U32 uint32
	U64 uint64
	F32 float32
	F64 float64
	S   string
	Bin []byte
	T   time.Time
}

type Inner struct {
	A int32
	S string
}

type Inner2 struct {
	F float64
	L int64
	B bool
}

type WithInner struct {
	X Inner
	P *Inner
	N int32
	Q *Inner2
}

// embedded structs
type Embedded struct {
	Inner
	Z string
}

type Embedded2 struct {
	Embedded
	Q int64
}

// custom names
type NamedS struct {
	Key   string
	Value int32
}

func (NamedS) HessianCodecName() string { return "com.example.NamedS" }

type NamedHolder struct {
	One  NamedS
	Ptr  *NamedS
	Many []NamedS
}

func (NamedHolder) HessianCodecName() string { return "com.example.Holder" }

type NamedList []Inner

func (NamedList) HessianCodecName() string { return "com.example.InnerList" }

type NamedListHolder struct {
	L NamedList
	N int32
}

type NamedMap map[string]int32

func (NamedMap) HessianCodecName() string { return "com.example.Counts" }

type NamedMapHolder struct {
	M NamedMap
	N int32
}

// ---- one struct per slice element kind

type SlBool struct{ V []bool }
type SlInt struct{ V []int }
type SlInt8 struct{ V []int8 }
type SlInt16 struct{ V []int16 }
type SlInt32 struct{ V []int32 }
type SlInt64 struct{ V []int64 }
type SlUint struct{ V []uint }
type SlUint16 struct{ V []uint16 }
type SlUint32 struct{ V []uint32 }
type SlUint64 struct{ V []uint64 }
type SlF32 struct{ V []float32 }
type SlF64 struct{ V []float64 }
type SlStr struct{ V []string }
type SlBin struct{ V [][]byte }
type SlTime struct{ V []time.Time }
type SlStruct struct{ V []Inner }
type SlPtr struct{ V []*Inner }
type SlSl struct{ V [][]int32 }
type SlSlStr struct{ V [][]string }
type SlMap struct{ V []map[string]int32 }
type SlIface struct{ V []interface{} }

// []T and []*T in one type: the list type names of the two collide
type BothSl struct {
	A []Inner
	B []*Inner
}

type TwoSlices struct {
	A []int32
	S []string
	B []Inner
}

// ---- one struct per map shape

type MpStrStr struct{ M map[string]string }
type MpStrI32 struct{ M map[string]int32 }
type MpStrI64 struct{ M map[string]int64 }
type MpStrInt struct{ M map[string]int }
type MpStrF64 struct{ M map[string]float64 }
type MpStrBool struct{ M map[string]bool }
type MpStrBin struct{ M map[string][]byte }
type MpStrTime struct{ M map[string]time.Time }
type MpStrStruct struct{ M map[string]Inner }
type MpStrPtr struct{ M map[string]*Inner }
type MpStrSl struct{ M map[string][]int32 }
type MpStrMp struct{ M map[string]map[string]string }
type MpI32Str struct{ M map[int32]string }
type MpI64Str struct{ M map[int64]string }
type MpIface struct {
	M map[interface{}]interface{}
}

// ---- recursive / mutually recursive

type Node struct {
	Val  int32
	Next *Node
	Prev *Node
}

type Tree struct {
	Name string
	Kids []*Tree
}

type MNode struct {
	Id int32
	M  map[string]*MNode
}

type Ping struct {
	N int32
	P *Pong
}

type Pong struct {
	S string
	Q *Ping
	L []*Ping
}

// Graph node used by C04 (pointer, slice-of-pointer, map-of-pointer fields, fillers)
type GNode struct {
	Id    int32
	A     *GNode
	B     *GNode
	Kids  []*GNode
	ByKey map[string]*GNode
}

// PadThen: scalars of every multi-octet kind behind a padding string, so that their
// payload can be made to straddle any byte offset of the message (buffer boundaries)
type PadThen struct {
	Pad  string
	L    int64
	D    float64
	T    time.Time
	I    int32
	F    float32
	Tail string
}

// MapThenLists: a typed (named) map followed by list types that occur more than once
type MapThenLists struct {
	M NamedMap
	A []int32
	B []int32
	C []string
	D []string
}

// Shift: pointers to classes of different shapes; which ones are nil decides the number each
// class definition gets in a message, so consecutive messages of ONE type number them differently
type Shift struct {
	A *Inner
	B *Inner2
	C *NamedS
	D *K01
	E *Embedded
	N int32
}

// Digest: a NAMED byte-slice type (written as a list, not as binary, by the pinned encoder)
type Digest []uint8

// DigestHolder: named byte slices in front of a shared pointer
type DigestHolder struct {
	D Digest
	N int32
	P *Inner
	Q *Inner
	E Digest
}

// Stamped: a struct that EMBEDS time.Time and has further fields
type Stamped struct {
	time.Time
	Note string
	N    int32
}

type StampedHolder struct {
	S Stamped
	P *Stamped
	L []Stamped
}

// PtrMap: the same map reachable through a pointer-to-map field and a plain map field
type PtrMap struct {
	PM *map[string]int32
	M  map[string]int32
	M2 map[string]int32
	X  *Inner
}

// Uni: field identifiers with non-ASCII letters (lengths in characters differ from lengths in octets)
type Uni struct {
	Größe   int32
	Straße  string
	Cañon名前 string
	Z       int32
}

// IOrder / IDoc: a pointer INTO a struct (to its first field) next to a pointer to the struct itself:
// two objects of different types at one address
type IHead struct {
	No    int32
	Title string
}
type ILine struct {
	Qty  int32
	Item string
}
type IParty struct{ Name string }
type IDoc struct {
	Header IHead
	Lines  []ILine
	Party  *IParty
}
type IOrder struct {
	Head *IHead
	Doc  *IDoc
}

// UniFirst: exported fields whose FIRST letter is an upper-case letter outside A-Z
type UniFirst struct {
	Étage int32
	Ärea  []int32
	Живот string
	Ok    int32
	Next  *UniFirst
}

// NamedNode: self-referential AND custom-named
type NamedNode struct {
	V    int32
	Next *NamedNode
	Kids []*NamedNode
}

func (NamedNode) HessianCodecName() string { return "com.example.Node" }

// KeyS: a struct used as a map key and nowhere else
type KeyS struct {
	A int32
	B string
}

type MpStructKey struct {
	M map[KeyS]string
	N int32
}

// MpStrAny: a map field with interface{} values
type MpStrAny struct {
	M map[string]interface{}
}

// GF: graph node with two pointer slots and one filler field of every kind in front of them (C04)
type GF struct {
	Id  int32
	M   map[string]int32
	S   []int32
	T   time.Time
	Str string
	Bin []byte
	In  Inner
	Dg  Digest // a named byte-slice type (a list on the wire, as the kind table says)
	A   *GF
	B   *GF
}

// SlMapSl / SlMapPtr / MpMpPtr: unnamed maps in VALUE position (list element, map value) that hold
// containers and shared pointers themselves
type SlMapSl struct{ V []map[string][]int32 }
type SlMapPtr struct {
	X *Inner
	V []map[string]*Inner
	Y *Inner
}
type MpMpPtr struct {
	M map[string]map[string]*Inner
	Z *Inner
}

// Groesse / GroesseList: registered names with non-ASCII characters (class, list type and map type names)
type Groesse struct{ V int32 }

func (Groesse) HessianCodecName() string { return "com.acme.Größe" }

type GroesseMap map[string]int32

func (GroesseMap) HessianCodecName() string { return "größen.Tabelle" }

type GroesseHolder struct {
	G Groesse
	L []Groesse
	M GroesseMap
	P *Groesse
}

// CaseFloats: float fields whose names differ only in the case of a later letter
type CaseFloats struct {
	Ph   float32
	PH   float32
	Vmax float64
	VMax float64
	Temp float64
}

// LongNames: exported field names longer than 64 characters
type LongNames struct {
	ThisFieldNameIsLongerThanSixtyFourCharactersWhichIsAnArbitraryLimit0001 int32
	ThisFieldNameIsLongerThanSixtyFourCharactersWhichIsAnArbitraryLimit0002 string
	Short                                                                   int32
}

// TimesThenRefs: a typed list of timestamps in front of shared pointers
type TimesThenRefs struct {
	T []time.Time
	A *Inner
	B *Inner
	U []time.Time
	C *Inner
}

// Dog declares its own codec name AND embeds a struct that has one (subclass / superclass)
type Dog struct {
	NamedS
	Bark string
}

func (Dog) HessianCodecName() string { return "com.example.Dog" }

type DogHolder struct {
	D Dog
	P *Dog
	N NamedS
}

// GBox: a generic struct type
type GBox[T any] struct {
	V T
	N int32
}
type GBoxHolder struct {
	A GBox[int32]
	B *GBox[string]
	L []GBox[int32]
}

// GM: a graph node with a typed (named) map in front of two lists of one type
type GM struct {
	Id int32
	M  NamedMap
	A  []*GM
	B  []*GM
	N  *GM
}

// AnyProps: a named map type with interface values (a back-reference stored in it stays a pointer to a map)
type AnyProps map[string]interface{}

func (AnyProps) HessianCodecName() string { return "com.example.AnyProps" }

type AnyPropsHolder struct {
	P AnyProps
	N int32
}

// MpOfMaps / SlOfMaps: typed maps as map values and as list elements
type MpOfMaps struct {
	A string
	M map[int32]map[int32]int32
}
type SlOfMaps struct {
	A string
	L []map[int32]int32
}

// Totals: a second named map type (C14: a type-name edit can turn one registered map type into another)
type Totals map[string]int32

func (Totals) HessianCodecName() string { return "com.example.Totals" }

// MpNamed: named maps as the values of a map-typed field
type MpNamed struct {
	Groups map[string]NamedMap
	Sum    Totals
}

// PNamed declares its codec name on the POINTER receiver; EmbPNamed embeds it by value
type PNamed struct {
	K string
	V int32
}

func (*PNamed) HessianCodecName() string { return "com.example.PNamed" }

type EmbPNamed struct {
	PNamed
	X int32
}
type EmbPNamedHolder struct {
	P PNamed
	E EmbPNamed
	Q *EmbPNamed
	L []EmbPNamed
}

// NamedPtrMap: a named (typed on the wire) map whose values are pointers
type NamedPtrMap map[string]*Inner

func (NamedPtrMap) HessianCodecName() string { return "com.example.Registry" }

// MapThenFloats: a typed map in front of float lists of both widths, one type repeated
type MapThenFloats struct {
	M NamedMap
	A []float32
	B []float64
	C []float64
	D []float32
}

// Location / Trip: user types whose short names are also names of time.Time's internals
type Location struct {
	Name string
	Lat  float64
}
type Zone struct{ Id int32 }
type Trip struct {
	When  time.Time
	Where Location
	Z     *Zone
	Stops []Location
	Back  time.Time
}

// EmbPtrNamed embeds a POINTER to a custom-named struct (nil in the zero value)
type EmbPtrNamed struct {
	*NamedS
	X int32
}
type EmbPtrHolder struct {
	A EmbPtrNamed
	P *EmbPtrNamed
	N NamedS
}

// EmbDeep: nil embedded pointers TWO levels deep in front of a custom-named struct
type EmbMid struct {
	*NamedS
	M int32
}
type EmbDeep struct {
	*EmbMid
	N int32
}
type EmbDeepHolder struct {
	A EmbDeep
	P *EmbDeep
	L []EmbDeep
}

// EmbVal embeds BY VALUE a struct that embeds a pointer to a custom-named struct
type EmbVal struct {
	EmbMid
	K int32
}

// DiaW: a DIAMOND of embedded pointers: the custom-named struct is reached over two paths of different length
type DiaD struct{ *NamedS }
type DiaB struct{ *DiaD }
type DiaA struct {
	*NamedS
	Q int32
}
type DiaW struct {
	*DiaB
	*DiaA
	N int32
}

// MapThenInts: a typed (named) map in front of integer lists of different widths, one type repeated
type MapThenInts struct {
	M NamedMap
	A []int32
	B []int64
	C []int64
	D []uint32
	E []int64
}

// CaseInts: integer fields whose names differ only in the case of a later letter
type CaseInts struct {
	Kb int64
	KB int64
	Mb int32
	MB int32
	Gb uint64
	GB uint16
}

// TwoNarrow: unnamed lists of different narrow integer kinds side by side (no scalar of those kinds)
type TwoNarrow struct {
	Small  []int8
	Medium []int16
	Wide   []int32
	Plain  []int
	U16    []uint16
	N      string
}

// EmbNamed embeds a custom-named struct (the promoted HessianCodecName is NOT its own name)
type EmbNamed struct {
	NamedS
	X int32
}

type EmbNamedHolder struct {
	N NamedS
	O EmbNamed
	P *EmbNamed
	L []EmbNamed
}

// named scalar types (kinds the statement lists; the types are not the built-in ones)
type Celsius float64
type Ratio float32
type Level int32
type Count64 int64
type Big uint64
type Small uint16
type Label string
type Flag bool
type Small8 uint8

type NamedScalars struct {
	C  Celsius
	R  Ratio
	I  Level
	J  Count64
	B  Big
	S  Small
	L  Label
	F  Flag
	Cs []Celsius
	Ls []Label
	Fs []Flag
	Is []Level
	M  map[Label]Level
	N  map[string]Flag
	Os []Small8
	O  Small8
}

type MpF64Str struct{ M map[float64]string }

// RTree / RMap: self-referential list and map types (no struct in between)
type RTree []RTree
type RMap map[string]RMap
type HoldR struct {
	T RTree
	M RMap
	N int32
}

// MpKids: lists of nodes as map values (lists in VALUE position: they never pass through a slice field)
type MpKids struct {
	M map[string][]*GNode
	N int32
}

// GHolder ends a graph with probe references to an early and a late node
type GHolder struct {
	Root  *GF
	Early *GF
	Late  *GF
}

// Shr: the same slice / map / array placed in sibling fields
type Shr struct {
	S1 []int32
	S2 []int32
	M1 map[string]int32
	M2 map[string]int32
	P1 []*Inner
	P2 []*Inner
	PS *[]*Inner
	X  *Inner
}

// ---- class family

type K01 struct{ A int32 }
type K02 struct{ A int32 }
type K03 struct{ A int32 }
type K04 struct{ A int32 }
type K05 struct{ A int32 }
type K06 struct{ A int32 }
type K07 struct{ A int32 }
type K08 struct{ A int32 }
type K09 struct{ A int32 }
type K10 struct{ A int32 }
type K11 struct{ A int32 }
type K12 struct{ A int32 }
type K13 struct{ A int32 }
type K14 struct{ A int32 }
type K15 struct{ A int32 }
type K16 struct{ A int32 }
type K17 struct{ A int32 }
type K18 struct{ A int32 }
type K19 struct{ A int32 }
type K20 struct{ A int32 }
type K21 struct{ A int32 }
type K22 struct{ A int32 }
type K23 struct{ A int32 }
type K24 struct{ A int32 }

type Bag struct {
	P01  *K01
	P02  *K02
	P03  *K03
	P04  *K04
	P05  *K05
	P06  *K06
	P07  *K07
	P08  *K08
	P09  *K09
	P10  *K10
	P11  *K11
	P12  *K12
	P13  *K13
	P14  *K14
	P15  *K15
	P16  *K16
	P17  *K17
	P18  *K18
	P19  *K19
	P20  *K20
	P21  *K21
	P22  *K22
	P23  *K23
	P24  *K24
	L03  []K03
	L17  []K17
	L20  []*K20
	Tail int32
}

// Entry describes one zoo type.
type Entry struct {
	Name string
	Type reflect.Type
	// Top marks entries encoded as a bare top-level value of that type
	// (slice, map, scalar); struct entries are encoded both as T and *T.
	Top  bool
	Tags []string
}

func e(v interface{}, tags ...string) Entry {
	t := reflect.TypeOf(v)
	n := t.Name()
	if n == "" {
		n = t.String()
	}
	return Entry{Name: n, Type: t, Tags: tags}
}

func top(v interface{}, tags ...string) Entry {
	x := e(v, tags...)
	x.Top = true
	x.Name = "top:" + x.Name
	return x
}

// Types is the zoo.
var Types = []Entry{
	e(Scalars{}, "scalars"),
	e(Inner{}), e(Inner2{}), e(WithInner{}, "nested", "ptr"),
	e(Embedded{}, "embedded"), e(Embedded2{}, "embedded"),
	e(NamedS{}, "custom"), e(NamedHolder{}, "custom"), e(NamedListHolder{}, "custom", "custom-slice"), e(NamedMapHolder{}, "custom", "custom-map"), e(MapThenLists{}, "custom", "custom-map", "slice"), e(PadThen{}, "scalars"),
	e(Uni{}, "scalars", "unicode-fields"), e(IOrder{}, "nested", "slice", "interior-pointer"), e(UniFirst{}, "scalars", "unicode-fields", "recursive"), e(NamedNode{}, "recursive", "custom"), e(MpStructKey{}, "map", "struct-key"), e(MpStrAny{}, "map", "iface"),
	e(SlMapSl{}, "slice", "slice-of-map"), e(SlMapPtr{}, "slice", "slice-of-map", "recursive"), e(MpMpPtr{}, "map", "recursive"), e(MpNamed{}, "map", "custom", "custom-map"), e(GroesseHolder{}, "custom", "custom-map", "slice", "nonascii-names"), e(CaseFloats{}, "scalars", "case-variant-fields"), e(LongNames{}, "scalars"),
	e(TimesThenRefs{}, "slice", "recursive"), e(Dog{}, "embedded", "custom"), e(DogHolder{}, "embedded", "custom"), e(GBoxHolder{}, "generic", "slice"), e(GM{}, "recursive", "custom-map"), e(AnyPropsHolder{}, "map", "custom", "custom-map", "iface"), e(MpOfMaps{}, "map"), e(SlOfMaps{}, "slice", "slice-of-map"),
	e(PNamed{}, "ptr-receiver-name"), e(EmbPNamed{}, "embedded", "ptr-receiver-name"), e(EmbPNamedHolder{}, "embedded", "ptr-receiver-name", "slice"),
	e(MapThenFloats{}, "custom", "custom-map", "slice"),
	e(Trip{}, "nested", "slice", "time-internals-names"), e(EmbPtrNamed{}, "embedded", "custom"), e(EmbDeep{}, "embedded", "custom"), e(DiaW{}, "embedded", "custom"), e(EmbVal{}, "embedded", "custom"), e(EmbDeepHolder{}, "embedded", "custom", "slice"), e(EmbPtrHolder{}, "embedded", "custom"),
	e(TwoNarrow{}, "slice"), e(MapThenInts{}, "custom", "custom-map", "slice"), e(CaseInts{}, "scalars", "case-variant-fields"), e(EmbNamed{}, "embedded", "custom"), e(EmbNamedHolder{}, "embedded", "custom", "slice"),
	e(HoldR{}, "slice", "map", "self-referential-container"), e(NamedScalars{}, "scalars", "named-scalars", "slice", "map"),
	e(DigestHolder{}, "slice", "named-bytes"), e(StampedHolder{}, "embedded", "embedded-time"), e(PtrMap{}, "map", "ptr-map"),
	e(SlBool{}, "slice"), e(SlInt{}, "slice"), e(SlInt8{}, "slice"), e(SlInt16{}, "slice"), e(SlInt32{}, "slice"), e(SlInt64{}, "slice"),
	e(SlUint{}, "slice"), e(SlUint16{}, "slice"), e(SlUint32{}, "slice"), e(SlUint64{}, "slice"),
	e(SlF32{}, "slice"), e(SlF64{}, "slice"), e(SlStr{}, "slice"), e(SlBin{}, "slice"), e(SlTime{}, "slice"),
	e(SlStruct{}, "slice"), e(SlPtr{}, "slice"), e(SlSl{}, "slice", "slice-of-slice"), e(SlSlStr{}, "slice", "slice-of-slice"),
	e(SlMap{}, "slice", "slice-of-map"), e(SlIface{}, "slice", "iface"), e(TwoSlices{}, "slice"), e(BothSl{}, "slice", "slice-ptr-collision"),
	e(MpStrStr{}, "map"), e(MpStrI32{}, "map"), e(MpStrI64{}, "map"), e(MpStrInt{}, "map"), e(MpStrF64{}, "map"), e(MpStrBool{}, "map"),
	e(MpStrBin{}, "map"), e(MpStrTime{}, "map"), e(MpStrStruct{}, "map"), e(MpStrPtr{}, "map"), e(MpStrSl{}, "map"), e(MpStrMp{}, "map"),
	e(MpI32Str{}, "map"), e(MpI64Str{}, "map"), e(MpIface{}, "map", "iface"),
	e(MpKids{}, "map", "recursive"), e(GF{}, "recursive"), e(GHolder{}, "recursive"), e(Shr{}, "slice", "map"),
	e(Node{}, "recursive"), e(Tree{}, "recursive"), e(MNode{}, "recursive"), e(Ping{}, "recursive"), e(GNode{}, "recursive"),
	e(Bag{}, "classes"), e(Shift{}, "classes", "ptr"),
	top([]int32{}, "slice"), top([]string{}, "slice"), top([]Inner{}, "slice"), top([]*Inner{}, "slice"), top([]interface{}{}, "slice", "iface"),
	top([]float64{}, "slice"), top([]int64{}, "slice"), top(NamedList{}, "slice", "custom"),
	top(map[string]string{}, "map", "top-unnamed-map"), top(map[string]int32{}, "map", "top-unnamed-map"), top(map[interface{}]interface{}{}, "map", "iface"), top(NamedMap{}, "map", "custom"), top(NamedPtrMap{}, "map", "custom", "recursive"),
	top(int32(0), "scalar"), top(int64(0), "scalar"), top(float64(0), "scalar"), top("", "scalar"), top(true, "scalar"),
	top([]byte{}, "scalar"), top(time.Time{}, "scalar"), top(int(0), "scalar"), top(uint16(0), "scalar"), top(float32(0), "scalar"), top(uint32(0), "scalar"), top(int16(0), "scalar"), top(int8(0), "scalar"), top(uint8(0), "scalar"),
}

var byName = map[string]Entry{}

func init() {
	for _, t := range Types {
		if _, dup := byName[t.Name]; dup {
			panic("zoo: duplicate entry " + t.Name)
		}
		byName[t.Name] = t
	}
	for _, t := range DeepTypes {
		byName[t.Name] = t
	}
}

func Lookup(name string) (Entry, bool) { e, ok := byName[name]; return e, ok }

func (e Entry) Has(tag string) bool {
	for _, t := range e.Tags {
		if t == tag {
			return true
		}
	}
	return false
}
