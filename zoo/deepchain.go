// Code generated for the C16 deep-containment witness (round 10); DO NOT EDIT by hand.
package zoo

// DC00..DC47: a containment chain of 48 DISTINCT struct types, each reached from the previous one through a
// pointer, a slice, a map or a slice of maps of pointers: the extraction walk is as deep as the type nests
// (about 110 frames here), and every type of the chain must end up in both maps.

type DC00 struct {
	V int32
	N *DC01
}

type DC01 struct {
	V int32
	N []DC02
}

type DC02 struct {
	V int32
	N map[string]*DC03
}

type DC03 struct {
	V int32
	N []map[string]*DC04
}

type DC04 struct {
	V int32
	N []*DC05
}

type DC05 struct {
	V int32
	N map[int32]DC06
}

type DC06 struct {
	V int32
	N *DC07
}

type DC07 struct {
	V int32
	N []DC08
}

type DC08 struct {
	V int32
	N map[string]*DC09
}

type DC09 struct {
	V int32
	N []map[string]*DC10
}

type DC10 struct {
	V int32
	N []*DC11
}

type DC11 struct {
	V int32
	N map[int32]DC12
}

type DC12 struct {
	V int32
	N *DC13
}

type DC13 struct {
	V int32
	N []DC14
}

type DC14 struct {
	V int32
	N map[string]*DC15
}

type DC15 struct {
	V int32
	N []map[string]*DC16
}

type DC16 struct {
	V int32
	N []*DC17
}

type DC17 struct {
	V int32
	N map[int32]DC18
}

type DC18 struct {
	V int32
	N *DC19
}

type DC19 struct {
	V int32
	N []DC20
}

type DC20 struct {
	V int32
	N map[string]*DC21
}

type DC21 struct {
	V int32
	N []map[string]*DC22
}

type DC22 struct {
	V int32
	N []*DC23
}

type DC23 struct {
	V int32
	N map[int32]DC24
}

type DC24 struct {
	V int32
	N *DC25
}

type DC25 struct {
	V int32
	N []DC26
}

type DC26 struct {
	V int32
	N map[string]*DC27
}

type DC27 struct {
	V int32
	N []map[string]*DC28
}

type DC28 struct {
	V int32
	N []*DC29
}

type DC29 struct {
	V int32
	N map[int32]DC30
}

type DC30 struct {
	V int32
	N *DC31
}

type DC31 struct {
	V int32
	N []DC32
}

type DC32 struct {
	V int32
	N map[string]*DC33
}

type DC33 struct {
	V int32
	N []map[string]*DC34
}

type DC34 struct {
	V int32
	N []*DC35
}

type DC35 struct {
	V int32
	N map[int32]DC36
}

type DC36 struct {
	V int32
	N *DC37
}

type DC37 struct {
	V int32
	N []DC38
}

type DC38 struct {
	V int32
	N map[string]*DC39
}

type DC39 struct {
	V int32
	N []map[string]*DC40
}

type DC40 struct {
	V int32
	N []*DC41
}

type DC41 struct {
	V int32
	N map[int32]DC42
}

type DC42 struct {
	V int32
	N *DC43
}

type DC43 struct {
	V int32
	N []DC44
}

type DC44 struct {
	V int32
	N map[string]*DC45
}

type DC45 struct {
	V int32
	N []map[string]*DC46
}

type DC46 struct {
	V int32
	N []*DC47
}

type DC47 struct {
	V int32
	S []string
}

// DeepTypes are looked up by name like Types but belong to C16 only (the other checks range over Types)
var DeepTypes = []Entry{e(DC00{}, "nested", "deep-chain")}
