// Package alt4: a struct type with the same short name as zoo.CaseInts, other field order (two Go types
// of one name decoded in ONE process, each with its own type map).
package alt4

type CaseInts struct {
	Gb uint64
	MB int32
	KB int64
	Kb int64
	Mb int32
	GB uint16
}
