package zoo

import (
	"bytes"
	"fmt"
	"math"
	"reflect"
	"time"
	"unsafe"
)

// EquivOpts tunes the documented normalisations.
type EquivOpts struct {
	// TimeSubMs: the original may carry sub-millisecond precision; the decoded
	// instant must then be less than a millisecond away.
	TimeSubMs bool
}

type eqState struct {
	o    EquivOpts
	seen map[[2]unsafe.Pointer]bool
	msg  string
}

// Equiv compares an original Go value with the value returned by the decoder,
// up to the documented normalisations only (see DESIGN.md 2.4).  "" = equivalent.
func Equiv(orig, dec interface{}, o EquivOpts) string {
	s := &eqState{o: o, seen: map[[2]unsafe.Pointer]bool{}}
	a := reflect.ValueOf(orig)
	b := reflect.ValueOf(dec)
	s.top(a, b)
	return s.msg
}

func (s *eqState) fail(path, f string, args ...interface{}) bool {
	if s.msg == "" {
		s.msg = path + ": " + fmt.Sprintf(f, args...)
	}
	return false
}

func isNilish(v reflect.Value) bool {
	if !v.IsValid() {
		return true
	}
	switch v.Kind() {
	case reflect.Ptr, reflect.Interface, reflect.Map, reflect.Slice:
		return v.IsNil()
	}
	return false
}

// CanonicalTop returns the documented canonical wire type of a top-level / interface-position scalar.
func CanonicalTop(t reflect.Type) reflect.Type {
	switch t.Kind() {
	case reflect.Int, reflect.Int8, reflect.Int16, reflect.Int32, reflect.Uint8, reflect.Uint16:
		return reflect.TypeOf(int32(0))
	case reflect.Int64, reflect.Uint, reflect.Uint32, reflect.Uint64:
		return reflect.TypeOf(int64(0))
	case reflect.Float32, reflect.Float64:
		return reflect.TypeOf(float64(0))
	}
	return t
}

// top handles the top-level conventions: T or *T comes back as *T; scalars in
// canonical wire type; nil pointer / empty containers / "" may come back as nil.
func (s *eqState) top(a, b reflect.Value) bool {
	for a.IsValid() && (a.Kind() == reflect.Ptr || a.Kind() == reflect.Interface) {
		if a.IsNil() {
			a = reflect.Value{}
			break
		}
		if a.Kind() == reflect.Ptr && a.Elem().Kind() == reflect.Struct && a.Elem().Type() != TimeType {
			break
		}
		a = a.Elem()
	}
	if !a.IsValid() {
		if isNilish(b) {
			return true
		}
		return s.fail("$", "original is nil, decoded %v", b.Type())
	}
	at := a.Type()
	switch {
	case at.Kind() == reflect.Ptr: // *struct
		return s.ifacePos(a, b, "$")
	case at.Kind() == reflect.Struct && at != TimeType:
		// T comes back as *T
		if !b.IsValid() || b.Kind() != reflect.Ptr || b.IsNil() || b.Type().Elem() != at {
			return s.fail("$", "top-level %v must come back as *%v, got %s", at, at, typeOf(b))
		}
		return s.eq(a, b.Elem(), "$")
	}
	return s.ifacePos(a, b, "$")
}

func typeOf(v reflect.Value) string {
	if !v.IsValid() {
		return "<nil>"
	}
	return v.Type().String()
}

// ifacePos compares a value stored in an interface{} position (top level, []interface{} element,
// map[interface{}]interface{} key/value) with the decoded dynamic value.
func (s *eqState) ifacePos(a, b reflect.Value, path string) bool {
	for a.IsValid() && a.Kind() == reflect.Interface {
		a = a.Elem()
	}
	for b.IsValid() && b.Kind() == reflect.Interface {
		b = b.Elem()
	}
	if !a.IsValid() || (a.Kind() == reflect.Ptr && a.IsNil()) {
		if isNilish(b) {
			return true
		}
		return s.fail(path, "original nil, decoded %s", typeOf(b))
	}
	at := a.Type()
	// empty containers / strings may be absent
	if !b.IsValid() || isNilish(b) {
		switch at.Kind() {
		case reflect.String, reflect.Slice, reflect.Map:
			if a.Len() == 0 {
				return true
			}
		case reflect.Struct:
			if at == TimeType && a.Interface().(time.Time).IsZero() {
				return true
			}
		}
		return s.fail(path, "decoded nil for non-empty %v", at)
	}
	want := CanonicalTop(at)
	if at.Kind() == reflect.Ptr || (at.Kind() == reflect.Struct && at != TimeType) {
		// struct in interface position: pointer to it
		st := at
		if st.Kind() == reflect.Ptr {
			st = st.Elem()
		} else {
			a = ptrTo(a)
		}
		if b.Kind() != reflect.Ptr || b.Type().Elem() != st {
			return s.fail(path, "dynamic type %v, want *%v", b.Type(), st)
		}
		return s.eq(a, b, path)
	}
	if b.Type() != want {
		return s.fail(path, "dynamic type %v, want %v", b.Type(), want)
	}
	if want != at {
		// numeric canonicalisation
		switch want.Kind() {
		case reflect.Int32, reflect.Int64:
			var x int64
			if at.Kind() >= reflect.Uint && at.Kind() <= reflect.Uint64 {
				x = int64(a.Uint())
			} else {
				x = a.Int()
			}
			if b.Int() != x {
				return s.fail(path, "number %d decoded as %d", x, b.Int())
			}
			return true
		case reflect.Float64:
			return s.floatEq(a.Float(), b.Float(), path)
		}
	}
	return s.eq(a, b, path)
}

func ptrTo(v reflect.Value) reflect.Value {
	p := reflect.New(v.Type())
	p.Elem().Set(v)
	return p
}

func (s *eqState) floatEq(x, y float64, path string) bool {
	if x == y || (math.IsNaN(x) && math.IsNaN(y)) {
		return true
	}
	return s.fail(path, "float %v decoded as %v", x, y)
}

// eq compares two values of the same static type.
func (s *eqState) eq(a, b reflect.Value, path string) bool {
	if a.Type() != b.Type() {
		return s.fail(path, "type %v vs %v", a.Type(), b.Type())
	}
	t := a.Type()
	switch t.Kind() {
	case reflect.Bool:
		if a.Bool() != b.Bool() {
			return s.fail(path, "bool %v decoded as %v", a.Bool(), b.Bool())
		}
	case reflect.Int, reflect.Int8, reflect.Int16, reflect.Int32, reflect.Int64:
		if a.Int() != b.Int() {
			return s.fail(path, "%v %d decoded as %d", t, a.Int(), b.Int())
		}
	case reflect.Uint, reflect.Uint8, reflect.Uint16, reflect.Uint32, reflect.Uint64:
		if a.Uint() != b.Uint() {
			return s.fail(path, "%v %d decoded as %d", t, a.Uint(), b.Uint())
		}
	case reflect.Float32, reflect.Float64:
		return s.floatEq(a.Float(), b.Float(), path)
	case reflect.String:
		if a.String() != b.String() {
			return s.fail(path, "string %s decoded as %s", clip(a.String()), clip(b.String()))
		}
	case reflect.Interface:
		return s.ifacePos(a, b, path)
	case reflect.Ptr:
		if a.IsNil() || b.IsNil() {
			if a.IsNil() && b.IsNil() {
				return true
			}
			// nil and empty containers are identified, also behind a pointer
			for _, x := range []reflect.Value{a, b} {
				if !x.IsNil() && (x.Elem().Kind() == reflect.Map || x.Elem().Kind() == reflect.Slice) && x.Elem().Len() == 0 {
					return true
				}
			}
			return s.fail(path, "pointer nil=%v decoded nil=%v", a.IsNil(), b.IsNil())
		}
		k := [2]unsafe.Pointer{unsafe.Pointer(a.Pointer()), unsafe.Pointer(b.Pointer())}
		if s.seen[k] {
			return true
		}
		s.seen[k] = true
		return s.eq(a.Elem(), b.Elem(), path)
	case reflect.Struct:
		if t == TimeType {
			return s.timeEq(a.Interface().(time.Time), b.Interface().(time.Time), path)
		}
		for i := 0; i < t.NumField(); i++ {
			if !s.eq(a.Field(i), b.Field(i), path+"."+t.Field(i).Name) {
				return false
			}
		}
	case reflect.Slice, reflect.Array:
		if t.Elem().Kind() == reflect.Uint8 && t.Kind() == reflect.Slice {
			if !bytes.Equal(a.Bytes(), b.Bytes()) {
				return s.fail(path, "[]byte len %d decoded as len %d", a.Len(), b.Len())
			}
			return true
		}
		if a.Len() != b.Len() {
			return s.fail(path, "slice len %d decoded as len %d", a.Len(), b.Len())
		}
		for i := 0; i < a.Len(); i++ {
			if !s.eq(a.Index(i), b.Index(i), fmt.Sprintf("%s[%d]", path, i)) {
				return false
			}
		}
	case reflect.Map:
		if a.Len() != b.Len() {
			return s.fail(path, "map len %d decoded as len %d", a.Len(), b.Len())
		}
		for _, k := range a.MapKeys() {
			var bv reflect.Value
			if t.Key().Kind() == reflect.Interface {
				// keys in interface position: find by canonical equality
				for _, kb := range b.MapKeys() {
					t2 := &eqState{o: s.o, seen: map[[2]unsafe.Pointer]bool{}}
					if t2.ifacePos(k, kb, path) {
						bv = b.MapIndex(kb)
						break
					}
				}
			} else {
				bv = b.MapIndex(k)
			}
			if !bv.IsValid() {
				return s.fail(path, "map key %v missing after decode", k)
			}
			if !s.eq(a.MapIndex(k), bv, fmt.Sprintf("%s{%v}", path, k)) {
				return false
			}
		}
	default:
		return s.fail(path, "unsupported kind %v", t.Kind())
	}
	return true
}

func (s *eqState) timeEq(x, y time.Time, path string) bool {
	if x.IsZero() || y.IsZero() {
		if x.IsZero() && y.IsZero() {
			return true
		}
		return s.fail(path, "time %v decoded as %v", x, y)
	}
	// integer arithmetic on (sec, nsec); no UnixNano
	dn := (y.Unix()-x.Unix())*1e9 + int64(y.Nanosecond()-x.Nanosecond())
	if y.Unix()-x.Unix() > 1 || y.Unix()-x.Unix() < -1 {
		return s.fail(path, "time %v decoded as %v", x.UTC(), y.UTC())
	}
	if x.Nanosecond()%1e6 == 0 {
		if dn != 0 {
			return s.fail(path, "time %v decoded as %v", x.UTC(), y.UTC())
		}
		return true
	}
	if dn <= -1e6 || dn >= 1e6 {
		return s.fail(path, "time %v decoded as %v (>=1ms away)", x.UTC(), y.UTC())
	}
	return true
}

func clip(s string) string {
	if len(s) > 60 {
		return fmt.Sprintf("%q...(%d bytes)", s[:40], len(s))
	}
	return fmt.Sprintf("%q", s)
}

type slKey struct {
	p unsafe.Pointer
	n int
	t reflect.Type
}

// SameSharing checks that two access paths lead to the same struct pointer in
// dec exactly when they did in orig.  Both graphs are walked in lock-step.
func SameSharing(orig, dec interface{}) string { return sameSharing(orig, dec, true) }

// SameSharingNoLists is SameSharing without list identity: for a decode of bytes in which a
// shared list was written out twice (the reference encoder does that: Denote treats slices as values).
func SameSharingNoLists(orig, dec interface{}) string { return sameSharing(orig, dec, false) }

func sameSharing(orig, dec interface{}, lists bool) string {
	ab := map[unsafe.Pointer]unsafe.Pointer{}
	ba := map[unsafe.Pointer]unsafe.Pointer{}
	mab := map[unsafe.Pointer]unsafe.Pointer{}
	mba := map[unsafe.Pointer]unsafe.Pointer{}
	sab := map[slKey]unsafe.Pointer{}
	msg := ""
	var walk func(a, b reflect.Value, path string) bool
	walk = func(a, b reflect.Value, path string) bool {
		for a.IsValid() && a.Kind() == reflect.Interface {
			a = a.Elem()
		}
		for b.IsValid() && b.Kind() == reflect.Interface {
			b = b.Elem()
		}
		if !a.IsValid() || !b.IsValid() {
			return true
		}
		if a.Kind() != b.Kind() {
			// T vs *T at top level
			if b.Kind() == reflect.Ptr && !b.IsNil() && a.Kind() == reflect.Struct {
				return walk(a, b.Elem(), path)
			}
			return true
		}
		switch a.Kind() {
		case reflect.Ptr:
			if a.IsNil() || b.IsNil() {
				return true
			}
			pa, pb := unsafe.Pointer(a.Pointer()), unsafe.Pointer(b.Pointer())
			if x, ok := ab[pa]; ok {
				if x != pb {
					msg = path + ": paths that shared one object in the original lead to distinct objects after decode"
					return false
				}
				return true
			}
			if _, ok := ba[pb]; ok {
				msg = path + ": distinct objects in the original became one object after decode"
				return false
			}
			ab[pa] = pb
			ba[pb] = pa
			return walk(a.Elem(), b.Elem(), path)
		case reflect.Struct:
			if a.Type() == TimeType {
				return true
			}
			for i := 0; i < a.NumField() && i < b.NumField(); i++ {
				if !walk(a.Field(i), b.Field(i), path+"."+a.Type().Field(i).Name) {
					return false
				}
			}
		case reflect.Slice:
			// a list is a container with identity on the wire: the same non-empty Go slice (same
			// array, same length, same type) reached over two paths must stay ONE list, so that a
			// write through one path is seen through the other, as in the original
			if lists && a.Len() > 0 && b.Len() == a.Len() {
				k := slKey{unsafe.Pointer(a.Pointer()), a.Len(), a.Type()}
				pb := unsafe.Pointer(b.Pointer())
				if x, ok := sab[k]; ok {
					if x != pb {
						msg = path + ": paths that shared one list in the original lead to distinct lists after decode"
						return false
					}
					return true
				}
				sab[k] = pb
			}
			for i := 0; i < a.Len() && i < b.Len(); i++ {
				if !walk(a.Index(i), b.Index(i), fmt.Sprintf("%s[%d]", path, i)) {
					return false
				}
			}
		case reflect.Map:
			if a.Type().Key().Kind() == reflect.Interface {
				return true
			}
			// maps are reference values in Go: a non-empty map reached over two paths must stay ONE map
			if a.Len() > 0 && b.Len() > 0 {
				pa, pb := unsafe.Pointer(a.Pointer()), unsafe.Pointer(b.Pointer())
				if x, ok := mab[pa]; ok {
					if x != pb {
						msg = path + ": paths that shared one map in the original lead to distinct maps after decode"
						return false
					}
					return true
				}
				if _, ok := mba[pb]; ok {
					msg = path + ": distinct maps in the original became one map after decode"
					return false
				}
				mab[pa] = pb
				mba[pb] = pa
			}
			for _, k := range a.MapKeys() {
				bv := b.MapIndex(k)
				if bv.IsValid() {
					if !walk(a.MapIndex(k), bv, fmt.Sprintf("%s{%v}", path, k)) {
						return false
					}
				}
			}
		}
		return true
	}
	walk(reflect.ValueOf(orig), reflect.ValueOf(dec), "$")
	return msg
}
