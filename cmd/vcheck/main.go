// vcheck is both the parent driver and (re-executed) the child worker.
package main

import (
	"fmt"
	"os"
	"strconv"

	"verif/hspec"
	"verif/work"
)

func main() {
	if len(os.Args) < 2 {
		fmt.Println("usage: vcheck run <prop> <tier> | replay <prop> <file> | selftest | list")
		os.Exit(2)
	}
	switch os.Args[1] {
	case "worker":
		os.Exit(work.WorkerMain(os.Args[2:]))
	case "replaycase":
		os.Exit(work.ReplayMain(os.Args[2:]))
	case "selftest":
		if err := hspec.SelfTest(1, 100000); err != nil {
			fmt.Println("ERROR self-test:", err)
			os.Exit(2)
		}
		fmt.Println("self-test ok: published examples, Java byte strings, 100000 random refenc/refdec round trips")
	case "list":
		for _, id := range work.IDs() {
			fmt.Println(id)
		}
	case "run", "replay":
		if len(os.Args) < 4 {
			fmt.Println("ERROR usage")
			os.Exit(2)
		}
		prop := os.Args[2]
		w, ok := work.Get(prop)
		if !ok {
			fmt.Println("ERROR unknown property", prop)
			os.Exit(2)
		}
		dir := os.Getenv("VERIF_DIR")
		if dir == "" {
			dir, _ = os.Getwd()
		}
		seed := int64(1)
		if s := os.Getenv("VERIF_SEED"); s != "" {
			if v, err := strconv.ParseInt(s, 10, 64); err == nil {
				seed = v
			}
		}
		kf, err := work.LoadKF(dir)
		if err != nil {
			fmt.Println("ERROR known_findings.json:", err)
			os.Exit(2)
		}
		self, _ := os.Executable()
		if b := os.Getenv("VCHECK_BIN"); b != "" {
			self = b
		}
		r := &work.Runner{VerifDir: dir, Bin: self, RaceBin: os.Getenv("VCHECK_RACE_BIN"), CoverBin: os.Getenv("VCHECK_COVER_BIN"), Prop: prop, Seed: seed, W: w, KF: kf}
		if os.Args[1] == "replay" {
			os.Exit(r.ReplayFile(os.Args[3]))
		}
		r.Tier = os.Args[3]
		if r.Tier != "quick" && r.Tier != "thorough" {
			fmt.Println("ERROR tier must be quick or thorough")
			os.Exit(2)
		}
		os.Exit(r.Run())
	default:
		fmt.Println("ERROR unknown command")
		os.Exit(2)
	}
}
