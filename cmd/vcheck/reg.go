package main
