package hspec

import (
	"encoding/binary"
	"fmt"
	"math"
	"unicode/utf8"
)

// Parser is the strict reference decoder.  One Parser = one stream: class
// definition, type and reference tables persist across successive Next calls.
type Parser struct {
	B       []byte
	Pos     int
	Classes []ClassDef
	Types   []string
	Refs    []*Value
	depth   int
	// LegacyBin counts x62 tags accepted as legacy non-final binary chunks.
	LegacyBin int
}

type ParseError struct {
	Pos   int
	Class string // short class of the error for known-finding matching
	Msg   string
}

func (e *ParseError) Error() string { return fmt.Sprintf("refdec@%d: %s: %s", e.Pos, e.Class, e.Msg) }

func (p *Parser) errf(class, f string, a ...interface{}) error {
	return &ParseError{Pos: p.Pos, Class: class, Msg: fmt.Sprintf(f, a...)}
}

func NewParser(b []byte) *Parser { return &Parser{B: b} }

// Parse parses exactly one value and demands that no bytes are left over.
func Parse(b []byte) (*Value, *Parser, error) {
	p := NewParser(b)
	v, err := p.Next()
	if err != nil {
		return nil, p, err
	}
	if p.Pos != len(b) {
		return v, p, p.errf("leftover", "%d bytes left over after value", len(b)-p.Pos)
	}
	return v, p, nil
}

const maxDepth = 100000

func (p *Parser) need(n int) error {
	if n < 0 || p.Pos+n > len(p.B) {
		return p.errf("truncated", "need %d bytes, have %d", n, len(p.B)-p.Pos)
	}
	return nil
}

func (p *Parser) byte1() (byte, error) {
	if err := p.need(1); err != nil {
		return 0, err
	}
	b := p.B[p.Pos]
	p.Pos++
	return b, nil
}

// Next parses one value (including any class definitions preceding it).
func (p *Parser) Next() (*Value, error) {
	p.depth++
	defer func() { p.depth-- }()
	if p.depth > maxDepth {
		return nil, p.errf("depth", "nesting too deep")
	}
	for {
		if err := p.need(1); err != nil {
			return nil, err
		}
		if p.B[p.Pos] != 'C' {
			break
		}
		if err := p.classDef(); err != nil {
			return nil, err
		}
	}
	off := p.Pos
	tag, _ := p.byte1()
	v := &Value{Ord: -1, Ann: &Ann{Off: off, Tag: tag, LenOff: -1}}
	var err error
	switch {
	case tag == 'N':
		v.Kind = KNull
		v.Ann.Form = "N"
	case tag == 'T', tag == 'F':
		v.Kind = KBool
		v.B = tag == 'T'
		v.Ann.Form = "bool"
	case tag >= 0x80 && tag <= 0xbf:
		v.Kind, v.I, v.Ann.Form = KInt, int64(tag)-0x90, "int1"
	case tag >= 0xc0 && tag <= 0xcf:
		if err = p.need(1); err == nil {
			v.Kind, v.I, v.Ann.Form = KInt, (int64(tag)-0xc8)<<8+int64(p.B[p.Pos]), "int2"
			p.Pos++
		}
	case tag >= 0xd0 && tag <= 0xd7:
		if err = p.need(2); err == nil {
			v.Kind, v.I, v.Ann.Form = KInt, (int64(tag)-0xd4)<<16+int64(p.B[p.Pos])<<8+int64(p.B[p.Pos+1]), "int3"
			p.Pos += 2
		}
	case tag == 'I':
		if err = p.need(4); err == nil {
			v.Kind, v.I, v.Ann.Form = KInt, int64(int32(binary.BigEndian.Uint32(p.B[p.Pos:]))), "int5"
			p.Pos += 4
		}
	case tag >= 0xd8 && tag <= 0xef:
		v.Kind, v.I, v.Ann.Form = KLong, int64(tag)-0xe0, "long1"
	case tag >= 0xf0: // .. 0xff
		if err = p.need(1); err == nil {
			v.Kind, v.I, v.Ann.Form = KLong, (int64(tag)-0xf8)<<8+int64(p.B[p.Pos]), "long2"
			p.Pos++
		}
	case tag >= 0x38 && tag <= 0x3f:
		if err = p.need(2); err == nil {
			v.Kind, v.I, v.Ann.Form = KLong, (int64(tag)-0x3c)<<16+int64(p.B[p.Pos])<<8+int64(p.B[p.Pos+1]), "long3"
			p.Pos += 2
		}
	case tag == 0x59:
		if err = p.need(4); err == nil {
			v.Kind, v.I, v.Ann.Form = KLong, int64(int32(binary.BigEndian.Uint32(p.B[p.Pos:]))), "long5"
			p.Pos += 4
		}
	case tag == 'L':
		if err = p.need(8); err == nil {
			v.Kind, v.I, v.Ann.Form = KLong, int64(binary.BigEndian.Uint64(p.B[p.Pos:])), "long9"
			p.Pos += 8
		}
	case tag == 0x5b:
		v.Kind, v.F, v.Ann.Form = KDouble, 0, "dbl1"
	case tag == 0x5c:
		v.Kind, v.F, v.Ann.Form = KDouble, 1, "dbl1"
	case tag == 0x5d:
		if err = p.need(1); err == nil {
			v.Kind, v.F, v.Ann.Form = KDouble, float64(int8(p.B[p.Pos])), "dbl2"
			p.Pos++
		}
	case tag == 0x5e:
		if err = p.need(2); err == nil {
			v.Kind, v.F, v.Ann.Form = KDouble, float64(int16(binary.BigEndian.Uint16(p.B[p.Pos:]))), "dbl3"
			p.Pos += 2
		}
	case tag == 0x5f:
		if err = p.need(4); err == nil {
			v.Kind, v.F, v.Ann.Form = KDouble, float64(math.Float32frombits(binary.BigEndian.Uint32(p.B[p.Pos:]))), "dbl5"
			p.Pos += 4
		}
	case tag == 'D':
		if err = p.need(8); err == nil {
			v.Kind, v.F, v.Ann.Form = KDouble, math.Float64frombits(binary.BigEndian.Uint64(p.B[p.Pos:])), "dbl9"
			p.Pos += 8
		}
	case tag == 0x4a:
		if err = p.need(8); err == nil {
			v.Kind, v.I, v.Ann.Form = KDate, int64(binary.BigEndian.Uint64(p.B[p.Pos:])), "date9"
			p.Pos += 8
		}
	case tag == 0x4b:
		if err = p.need(4); err == nil {
			v.Kind, v.I, v.Ann.Form = KDate, int64(int32(binary.BigEndian.Uint32(p.B[p.Pos:])))*60000, "date5"
			p.Pos += 4
		}
	case tag <= 0x1f, tag >= 0x30 && tag <= 0x33, tag == 'S', tag == 'R':
		p.Pos = off
		err = p.str(v)
	case tag >= 0x20 && tag <= 0x2f, tag >= 0x34 && tag <= 0x37, tag == 'B', tag == 0x41:
		p.Pos = off
		err = p.bin(v)
	case tag == 0x62 && len(p.Classes) < 3:
		// legacy non-final binary chunk 'b': only where it cannot be "object, definition #2"
		p.Pos = off
		p.LegacyBin++
		err = p.bin(v)
	case tag == 0x55, tag == 'V', tag == 0x57, tag == 0x58, tag >= 0x70 && tag <= 0x7f:
		err = p.list(v, tag)
	case tag == 'M', tag == 'H':
		err = p.mapv(v, tag)
	case tag == 'O', tag >= 0x60 && tag <= 0x6f:
		err = p.object(v, tag)
	case tag == 0x51:
		v.Ann.IdxOff = p.Pos
		var idx int64
		idx, err = p.intValue("ref index")
		v.Ann.IdxEnd = p.Pos
		if err == nil {
			if idx < 0 || int(idx) >= len(p.Refs) {
				p.Pos = off
				err = p.errf("ref-range", "ref #%d but only %d containers seen", idx, len(p.Refs))
			} else {
				v.Kind, v.Ref, v.RefIdx, v.Ann.Form = KRef, p.Refs[idx], int(idx), "ref"
			}
		}
	default:
		p.Pos = off
		err = p.errf("tag", "reserved/unknown tag 0x%02x in value position", tag)
	}
	if err != nil {
		return nil, err
	}
	v.Ann.End = p.Pos
	return v, nil
}

// intValue parses a value that the grammar requires to be an int.
func (p *Parser) intValue(what string) (int64, error) {
	start := p.Pos
	if err := p.need(1); err != nil {
		return 0, err
	}
	t := p.B[p.Pos]
	if !(t >= 0x80 && t <= 0xd7 || t == 'I') {
		return 0, p.errf("int-expected", "%s: expected int, tag 0x%02x", what, t)
	}
	v, err := p.Next()
	if err != nil {
		return 0, err
	}
	if v.Kind != KInt {
		p.Pos = start
		return 0, p.errf("int-expected", "%s: expected int", what)
	}
	return v.I, nil
}

func isStringTag(t byte) bool {
	return t <= 0x1f || (t >= 0x30 && t <= 0x33) || t == 'S' || t == 'R'
}

// stringValue parses a value that the grammar requires to be a string.
func (p *Parser) stringValue(what string) (string, error) {
	if err := p.need(1); err != nil {
		return "", err
	}
	if !isStringTag(p.B[p.Pos]) {
		return "", p.errf("string-expected", "%s: expected string, tag 0x%02x", what, p.B[p.Pos])
	}
	v := &Value{Ann: &Ann{}}
	if err := p.str(v); err != nil {
		return "", err
	}
	return v.S, nil
}

func (p *Parser) str(v *Value) error {
	v.Kind = KString
	v.Ann.Form = "str"
	var out []byte
	for {
		coff := p.Pos
		tag, err := p.byte1()
		if err != nil {
			return err
		}
		var n int
		final := true
		switch {
		case tag <= 0x1f:
			n = int(tag)
		case tag >= 0x30 && tag <= 0x33:
			if err := p.need(1); err != nil {
				return err
			}
			n = int(tag-0x30)<<8 + int(p.B[p.Pos])
			p.Pos++
		case tag == 'S' || tag == 'R':
			if err := p.need(2); err != nil {
				return err
			}
			n = int(p.B[p.Pos])<<8 + int(p.B[p.Pos+1])
			p.Pos += 2
			final = tag == 'S'
		default:
			p.Pos = coff
			return p.errf("string-chunk", "expected string chunk, tag 0x%02x", tag)
		}
		start := p.Pos
		for i := 0; i < n; i++ {
			if p.Pos >= len(p.B) {
				return p.errf("truncated", "string chunk declares %d chars, data ends after %d", n, i)
			}
			r, sz := utf8.DecodeRune(p.B[p.Pos:])
			if r == utf8.RuneError && sz <= 1 {
				return p.errf("utf8", "invalid UTF-8 at char %d of chunk (declared %d chars)", i, n)
			}
			p.Pos += sz
		}
		out = append(out, p.B[start:p.Pos]...)
		v.Ann.Chunks = append(v.Ann.Chunks, Chunk{Final: final, N: n, Off: coff, End: p.Pos, Tag: tag})
		if final {
			break
		}
	}
	v.S = string(out)
	return nil
}

func (p *Parser) bin(v *Value) error {
	v.Kind = KBinary
	v.Ann.Form = "bin"
	out := []byte{}
	for {
		coff := p.Pos
		tag, err := p.byte1()
		if err != nil {
			return err
		}
		var n int
		final := true
		switch {
		case tag >= 0x20 && tag <= 0x2f:
			n = int(tag - 0x20)
		case tag >= 0x34 && tag <= 0x37:
			if err := p.need(1); err != nil {
				return err
			}
			n = int(tag-0x34)<<8 + int(p.B[p.Pos])
			p.Pos++
		case tag == 'B' || tag == 0x41 || (tag == 0x62 && (len(p.Classes) < 3 || len(v.Ann.Chunks) > 0)):
			if err := p.need(2); err != nil {
				return err
			}
			n = int(p.B[p.Pos])<<8 + int(p.B[p.Pos+1])
			p.Pos += 2
			final = tag == 'B'
		default:
			p.Pos = coff
			return p.errf("binary-chunk", "expected binary chunk, tag 0x%02x", tag)
		}
		if err := p.need(n); err != nil {
			return err
		}
		out = append(out, p.B[p.Pos:p.Pos+n]...)
		p.Pos += n
		v.Ann.Chunks = append(v.Ann.Chunks, Chunk{Final: final, N: n, Off: coff, End: p.Pos, Tag: tag})
		if final {
			break
		}
	}
	v.Bin = out
	return nil
}

func (p *Parser) typ(a *Ann) (string, error) {
	a.TypeOff = p.Pos
	defer func() { a.TypeEnd = p.Pos }()
	if err := p.need(1); err != nil {
		return "", err
	}
	if isStringTag(p.B[p.Pos]) {
		s, err := p.stringValue("type")
		if err != nil {
			return "", err
		}
		p.Types = append(p.Types, s)
		a.TypeLiteral = true
		return s, nil
	}
	idx, err := p.intValue("type index")
	if err != nil {
		return "", err
	}
	if idx < 0 || int(idx) >= len(p.Types) {
		return "", p.errf("type-range", "type #%d but only %d types seen", idx, len(p.Types))
	}
	return p.Types[idx], nil
}

func (p *Parser) register(v *Value) {
	v.Ord = len(p.Refs)
	p.Refs = append(p.Refs, v)
}

func (p *Parser) list(v *Value, tag byte) error {
	v.Kind = KList
	variable := false
	n := -1
	var err error
	switch {
	case tag == 0x55:
		v.Ann.Form = "x55"
		variable = true
		v.Type, err = p.typ(v.Ann)
	case tag == 'V':
		v.Ann.Form = "V"
		if v.Type, err = p.typ(v.Ann); err == nil {
			v.Ann.LenOff = p.Pos
			var l int64
			l, err = p.intValue("list length")
			v.Ann.LenEnd = p.Pos
			n = int(l)
		}
	case tag == 0x57:
		v.Ann.Form = "x57"
		variable = true
	case tag == 0x58:
		v.Ann.Form = "x58"
		v.Ann.LenOff = p.Pos
		var l int64
		l, err = p.intValue("list length")
		v.Ann.LenEnd = p.Pos
		n = int(l)
	case tag >= 0x70 && tag <= 0x77:
		v.Ann.Form = "x7t"
		n = int(tag - 0x70)
		v.Type, err = p.typ(v.Ann)
	default:
		v.Ann.Form = "x7u"
		n = int(tag - 0x78)
	}
	if err != nil {
		return err
	}
	if !variable && n < 0 {
		return p.errf("length", "negative list length %d", n)
	}
	p.register(v)
	v.Elems = []*Value{}
	if variable {
		for {
			if err := p.need(1); err != nil {
				return err
			}
			if p.B[p.Pos] == 'Z' {
				p.Pos++
				return nil
			}
			e, err := p.Next()
			if err != nil {
				return err
			}
			v.Elems = append(v.Elems, e)
		}
	}
	for i := 0; i < n; i++ {
		e, err := p.Next()
		if err != nil {
			return err
		}
		v.Elems = append(v.Elems, e)
	}
	return nil
}

func (p *Parser) mapv(v *Value, tag byte) error {
	v.Kind = KMap
	v.Ann.Form = string(tag)
	if tag == 'M' {
		t, err := p.typ(v.Ann)
		if err != nil {
			return err
		}
		v.Type = t
		v.MapTyped = true
	}
	p.register(v)
	v.Elems = []*Value{}
	for {
		if err := p.need(1); err != nil {
			return err
		}
		if p.B[p.Pos] == 'Z' {
			p.Pos++
			return nil
		}
		k, err := p.Next()
		if err != nil {
			return err
		}
		if err := p.need(1); err != nil {
			return err
		}
		if p.B[p.Pos] == 'Z' {
			return p.errf("map-odd", "map ends after a key without value")
		}
		val, err := p.Next()
		if err != nil {
			return err
		}
		v.Elems = append(v.Elems, k, val)
	}
}

func (p *Parser) classDef() error {
	off := p.Pos
	p.Pos++ // 'C'
	name, err := p.stringValue("class name")
	if err != nil {
		return err
	}
	n, err := p.intValue("field count")
	if err != nil {
		return err
	}
	if n < 0 {
		return p.errf("length", "negative field count %d", n)
	}
	if int(n) > len(p.B)-p.Pos {
		return p.errf("truncated", "field count %d exceeds remaining bytes", n)
	}
	fields := make([]string, 0, n)
	for i := 0; i < int(n); i++ {
		f, err := p.stringValue("field name")
		if err != nil {
			return err
		}
		fields = append(fields, f)
	}
	p.Classes = append(p.Classes, ClassDef{Name: name, Fields: fields, Off: off, End: p.Pos})
	return nil
}

func (p *Parser) object(v *Value, tag byte) error {
	v.Kind = KObject
	var idx int64
	if tag == 'O' {
		v.Ann.Form = "O"
		v.Ann.IdxOff = p.Pos
		var err error
		idx, err = p.intValue("class index")
		v.Ann.IdxEnd = p.Pos
		if err != nil {
			return err
		}
	} else {
		v.Ann.Form = "x6"
		idx = int64(tag - 0x60)
	}
	if idx < 0 || int(idx) >= len(p.Classes) {
		return p.errf("class-range", "object of class #%d but only %d definitions seen", idx, len(p.Classes))
	}
	cd := p.Classes[idx]
	v.Ann.DefIdx = int(idx)
	v.Type = cd.Name
	v.Fields = cd.Fields
	p.register(v)
	v.Elems = make([]*Value, 0, len(cd.Fields))
	for range cd.Fields {
		e, err := p.Next()
		if err != nil {
			return err
		}
		v.Elems = append(v.Elems, e)
	}
	return nil
}

// Walk visits every node of a parsed tree once (wire order; refs are not followed).
func Walk(v *Value, f func(*Value)) {
	if v == nil {
		return
	}
	f(v)
	if v.Kind == KRef {
		return
	}
	for _, e := range v.Elems {
		Walk(e, f)
	}
}
