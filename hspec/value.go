// Package hspec is an independent executable model of the Hessian 2.0
// serialization grammar (DESIGN.md Appendix A).  It is written from the
// published grammar / bytecode map, not from the code under test.
package hspec

import (
	"fmt"
	"math"
	"sort"
	"strings"
)

type Kind int

const (
	KNull Kind = iota
	KBool
	KInt
	KLong
	KDouble
	KDate
	KString
	KBinary
	KList
	KMap
	KObject
	KRef
)

var kindNames = []string{"null", "bool", "int", "long", "double", "date", "string", "binary", "list", "map", "object", "ref"}

func (k Kind) String() string { return kindNames[k] }

// Chunk describes one wire chunk of a string or binary.
type Chunk struct {
	Final bool
	N     int // declared length (characters for strings, octets for binary)
	Off   int // offset of chunk tag
	End   int // offset after chunk payload
	Tag   byte
}

// Ann is the wire annotation of a parsed node.
type Ann struct {
	Off, End    int
	Tag         byte
	Form        string // e.g. int1,int2,int3,int5,long1..long9,dbl1,dbl2,dbl3,dbl5,dbl9,date9,date5,x55,V,x57,x58,x7t,x7u,M,H,O,x6,ref
	Chunks      []Chunk
	TypeLiteral bool // list/map type given literally (not by index)
	TypeOff     int
	TypeEnd     int
	LenOff      int // offset of an explicit length int (V, x58), -1 otherwise
	LenEnd      int
	DefIdx      int // object: class definition index
	IdxOff      int // object 'O' / ref: offset of the index int
	IdxEnd      int
}

// Value is an abstract Hessian value (a node of a rooted graph).
type Value struct {
	Kind Kind
	B    bool
	I    int64   // int, long, date (ms since epoch)
	F    float64 // double
	S    string  // string
	Bin  []byte
	// containers
	Type     string   // list/map type ("" = untyped), object class name
	MapTyped bool     // map written/to be written with 'M' (even with empty type)
	Fields   []string // object field names (wire names)
	Elems    []*Value // list elems; map k0,v0,k1,v1,...; object field values
	Ord      int      // reference ordinal (containers parsed from the wire), -1 otherwise
	Ref      *Value   // KRef target
	RefIdx   int
	Ann      *Ann
	// Ident marks object nodes whose identity matters (Go *struct); set by Denote.
	Ident bool
}

type ClassDef struct {
	Name   string
	Fields []string
	Off    int
	End    int
}

func Null() *Value            { return &Value{Kind: KNull, Ord: -1} }
func Bool(b bool) *Value      { return &Value{Kind: KBool, B: b, Ord: -1} }
func Int(i int32) *Value      { return &Value{Kind: KInt, I: int64(i), Ord: -1} }
func Long(i int64) *Value     { return &Value{Kind: KLong, I: i, Ord: -1} }
func Double(f float64) *Value { return &Value{Kind: KDouble, F: f, Ord: -1} }
func Date(ms int64) *Value    { return &Value{Kind: KDate, I: ms, Ord: -1} }
func String(s string) *Value  { return &Value{Kind: KString, S: s, Ord: -1} }
func Binary(b []byte) *Value  { return &Value{Kind: KBinary, Bin: b, Ord: -1} }
func List(typ string, elems ...*Value) *Value {
	return &Value{Kind: KList, Type: typ, Elems: elems, Ord: -1}
}
func Map(typ string, kv ...*Value) *Value {
	return &Value{Kind: KMap, Type: typ, MapTyped: typ != "", Elems: kv, Ord: -1}
}
func Object(class string, fields []string, vals ...*Value) *Value {
	return &Value{Kind: KObject, Type: class, Fields: fields, Elems: vals, Ord: -1}
}

// Deref follows ref nodes.
func (v *Value) Deref() *Value {
	for v != nil && v.Kind == KRef {
		v = v.Ref
	}
	return v
}

// CmpOpts controls Bisim.
type CmpOpts struct {
	// NullEmpty: null ≡ empty string / empty binary / empty list / empty map.
	NullEmpty bool
	// IgnoreListType / IgnoreMapType: do not compare container type strings.
	IgnoreListType bool
	IgnoreMapType  bool
	// DateTolMs: tolerated absolute difference of dates in ms (0 = exact).
	DateTolMs int64
}

type pair struct{ a, b *Value }

type bisim struct {
	o     CmpOpts
	seen  map[pair]bool
	ab    map[*Value]*Value
	ba    map[*Value]*Value
	first string
	tag   string
}

// Bisim compares two rooted graphs: unfolded content must agree, and nodes
// marked Ident on either side must be in one-to-one correspondence.
// It returns "" when they agree, else a description of the first difference.
func Bisim(a, b *Value, o CmpOpts) string {
	d, _ := BisimTag(a, b, o)
	return d
}

// BisimTag also returns a short tag naming the kind of the first difference
// (kind, int, date, string, list-type, list-len, class, field-name, map-key, identity, ...).
func BisimTag(a, b *Value, o CmpOpts) (string, string) {
	s := &bisim{o: o, seen: map[pair]bool{}, ab: map[*Value]*Value{}, ba: map[*Value]*Value{}}
	s.cmp(a, b, "$")
	return s.first, s.tag
}

func (s *bisim) fail(path, f string, args ...interface{}) bool {
	if s.first == "" {
		s.first = path + ": " + fmt.Sprintf(f, args...)
		// the tag is the leading word(s) of the format up to the first verb
		t := f
		if i := strings.IndexByte(t, '%'); i >= 0 {
			t = t[:i]
		}
		if i := strings.IndexByte(t, ':'); i >= 0 {
			t = t[:i]
		}
		s.tag = strings.ReplaceAll(strings.TrimSpace(t), " ", "-")
	}
	return false
}

func isEmptyish(v *Value) bool {
	switch v.Kind {
	case KNull:
		return true
	case KString:
		return v.S == ""
	case KBinary:
		return len(v.Bin) == 0
	case KList, KMap:
		return len(v.Elems) == 0
	}
	return false
}

func (s *bisim) cmp(a, b *Value, path string) bool {
	a, b = a.Deref(), b.Deref()
	if a == nil || b == nil {
		if a == b {
			return true
		}
		return s.fail(path, "nil node")
	}
	if s.o.NullEmpty && (a.Kind == KNull || b.Kind == KNull) {
		if isEmptyish(a) && isEmptyish(b) {
			return true
		}
	}
	if a.Kind != b.Kind {
		return s.fail(path, "kind %v vs %v", a.Kind, b.Kind)
	}
	switch a.Kind {
	case KNull:
		return true
	case KBool:
		if a.B != b.B {
			return s.fail(path, "bool %v vs %v", a.B, b.B)
		}
		return true
	case KInt, KLong:
		if a.I != b.I {
			return s.fail(path, "%v %d vs %d", a.Kind, a.I, b.I)
		}
		return true
	case KDate:
		d := a.I - b.I
		if d < 0 {
			d = -d
		}
		if d > s.o.DateTolMs {
			return s.fail(path, "date %d vs %d", a.I, b.I)
		}
		return true
	case KDouble:
		if a.F == b.F || (math.IsNaN(a.F) && math.IsNaN(b.F)) {
			return true
		}
		return s.fail(path, "double %v vs %v", a.F, b.F)
	case KString:
		if a.S != b.S {
			return s.fail(path, "string %s vs %s", clip(a.S), clip(b.S))
		}
		return true
	case KBinary:
		if string(a.Bin) != string(b.Bin) {
			return s.fail(path, "binary len %d vs len %d", len(a.Bin), len(b.Bin))
		}
		return true
	}
	// containers
	if a.Ident || b.Ident {
		if x, ok := s.ab[a]; ok && x != b {
			return s.fail(path, "identity: left node already matched to another right node")
		}
		if x, ok := s.ba[b]; ok && x != a {
			return s.fail(path, "identity: right node already matched to another left node")
		}
		s.ab[a] = b
		s.ba[b] = a
	}
	p := pair{a, b}
	if s.seen[p] {
		return true
	}
	s.seen[p] = true
	switch a.Kind {
	case KList:
		if !s.o.IgnoreListType && a.Type != b.Type {
			return s.fail(path, "list type %q vs %q", a.Type, b.Type)
		}
		if len(a.Elems) != len(b.Elems) {
			return s.fail(path, "list len %d vs %d", len(a.Elems), len(b.Elems))
		}
		for i := range a.Elems {
			if !s.cmp(a.Elems[i], b.Elems[i], fmt.Sprintf("%s[%d]", path, i)) {
				return false
			}
		}
		return true
	case KObject:
		if a.Type != b.Type {
			return s.fail(path, "class %q vs %q", a.Type, b.Type)
		}
		if len(a.Fields) != len(b.Fields) || len(a.Elems) != len(b.Elems) {
			return s.fail(path, "field count %d/%d vs %d/%d", len(a.Fields), len(a.Elems), len(b.Fields), len(b.Elems))
		}
		for i := range a.Fields {
			if a.Fields[i] != b.Fields[i] {
				return s.fail(path, "field name #%d %q vs %q", i, a.Fields[i], b.Fields[i])
			}
		}
		for i := range a.Elems {
			if !s.cmp(a.Elems[i], b.Elems[i], path+"."+a.Fields[i]) {
				return false
			}
		}
		return true
	case KMap:
		if !s.o.IgnoreMapType && a.Type != b.Type {
			return s.fail(path, "map type %q vs %q", a.Type, b.Type)
		}
		if len(a.Elems) != len(b.Elems) {
			return s.fail(path, "map entries %d vs %d", len(a.Elems)/2, len(b.Elems)/2)
		}
		// match entries as a set: keys are compared by scalar key string
		// when possible, else by trial bisimulation.
		used := make([]bool, len(b.Elems)/2)
		for i := 0; i+1 < len(a.Elems); i += 2 {
			found := false
			ka := s.key(a.Elems[i])
			for j := 0; j+1 < len(b.Elems); j += 2 {
				if used[j/2] {
					continue
				}
				if ka != "" {
					if s.key(b.Elems[j]) != ka {
						continue
					}
				} else {
					t := &bisim{o: s.o, seen: map[pair]bool{}, ab: map[*Value]*Value{}, ba: map[*Value]*Value{}}
					if !t.cmp(a.Elems[i], b.Elems[j], path) {
						continue
					}
				}
				used[j/2] = true
				found = true
				if !s.cmp(a.Elems[i+1], b.Elems[j+1], fmt.Sprintf("%s{%s}", path, clip(ka))) {
					return false
				}
				break
			}
			if !found {
				return s.fail(path, "map key %s missing on right", clip(ShortString(a.Elems[i])))
			}
		}
		return true
	}
	return s.fail(path, "unknown kind")
}

// key: scalar key string; under NullEmpty an absent key equals the empty string / binary.
func (s *bisim) key(v *Value) string {
	k := ScalarKey(v)
	if s.o.NullEmpty && (k == "s" || k == "x") {
		return "N"
	}
	return k
}

func clip(s string) string {
	if len(s) > 60 {
		return fmt.Sprintf("%q...(%d bytes)", s[:40], len(s))
	}
	return fmt.Sprintf("%q", s)
}

// ScalarKey returns a canonical string for scalar values ("" for containers).
func ScalarKey(v *Value) string {
	v = v.Deref()
	switch v.Kind {
	case KNull:
		return "N"
	case KBool:
		return fmt.Sprintf("b%v", v.B)
	case KInt:
		return fmt.Sprintf("i%d", v.I)
	case KLong:
		return fmt.Sprintf("l%d", v.I)
	case KDouble:
		return fmt.Sprintf("d%x", math.Float64bits(v.F))
	case KDate:
		return fmt.Sprintf("t%d", v.I)
	case KString:
		return "s" + v.S
	case KBinary:
		return "x" + string(v.Bin)
	}
	return ""
}

// ShortString renders a value for messages / evidence samples (bounded, cycle safe).
func ShortString(v *Value) string {
	var sb strings.Builder
	short(&sb, v, 0, map[*Value]bool{})
	s := sb.String()
	if len(s) > 400 {
		s = s[:400] + "..."
	}
	return s
}

func short(sb *strings.Builder, v *Value, depth int, on map[*Value]bool) {
	if sb.Len() > 500 {
		return
	}
	if v == nil {
		sb.WriteString("<nil>")
		return
	}
	switch v.Kind {
	case KNull:
		sb.WriteString("null")
	case KBool:
		fmt.Fprintf(sb, "%v", v.B)
	case KInt:
		fmt.Fprintf(sb, "%d", v.I)
	case KLong:
		fmt.Fprintf(sb, "%dL", v.I)
	case KDouble:
		fmt.Fprintf(sb, "%vD", v.F)
	case KDate:
		fmt.Fprintf(sb, "date(%d)", v.I)
	case KString:
		sb.WriteString(clip(v.S))
	case KBinary:
		fmt.Fprintf(sb, "bin[%d]", len(v.Bin))
	case KRef:
		fmt.Fprintf(sb, "ref#%d", v.RefIdx)
	case KList, KMap, KObject:
		if on[v] || depth > 6 {
			fmt.Fprintf(sb, "<%v...>", v.Kind)
			return
		}
		on[v] = true
		defer delete(on, v)
		switch v.Kind {
		case KList:
			fmt.Fprintf(sb, "list<%s>[", v.Type)
			for i, e := range v.Elems {
				if i > 0 {
					sb.WriteString(",")
				}
				if i >= 8 {
					fmt.Fprintf(sb, "...%d more", len(v.Elems)-i)
					break
				}
				short(sb, e, depth+1, on)
			}
			sb.WriteString("]")
		case KMap:
			fmt.Fprintf(sb, "map<%s>{", v.Type)
			for i := 0; i+1 < len(v.Elems); i += 2 {
				if i > 0 {
					sb.WriteString(",")
				}
				if i >= 12 {
					fmt.Fprintf(sb, "...%d more", (len(v.Elems)-i)/2)
					break
				}
				short(sb, v.Elems[i], depth+1, on)
				sb.WriteString(":")
				short(sb, v.Elems[i+1], depth+1, on)
			}
			sb.WriteString("}")
		case KObject:
			fmt.Fprintf(sb, "%s{", v.Type)
			for i, e := range v.Elems {
				if i > 0 {
					sb.WriteString(",")
				}
				if i < len(v.Fields) {
					sb.WriteString(v.Fields[i] + "=")
				}
				short(sb, e, depth+1, on)
			}
			sb.WriteString("}")
		}
	}
}

// Canon returns a canonical hashable string of a graph (sharing-insensitive
// for content; cycles are cut with back-edge markers, map entries sorted).
func Canon(v *Value) string {
	var sb strings.Builder
	canon(&sb, v, map[*Value]int{})
	return sb.String()
}

func canon(sb *strings.Builder, v *Value, on map[*Value]int) {
	v = v.Deref()
	if v == nil {
		sb.WriteString("?")
		return
	}
	if k := ScalarKey(v); k != "" {
		sb.WriteString(k)
		sb.WriteString(";")
		return
	}
	if d, ok := on[v]; ok {
		fmt.Fprintf(sb, "^%d;", len(on)-d)
		return
	}
	on[v] = len(on)
	defer delete(on, v)
	switch v.Kind {
	case KList:
		fmt.Fprintf(sb, "L<%s>%d[", v.Type, len(v.Elems))
		for _, e := range v.Elems {
			canon(sb, e, on)
		}
		sb.WriteString("]")
	case KObject:
		fmt.Fprintf(sb, "O<%s>(", v.Type)
		for i, e := range v.Elems {
			if i < len(v.Fields) {
				sb.WriteString(v.Fields[i] + "=")
			}
			canon(sb, e, on)
		}
		sb.WriteString(")")
	case KMap:
		fmt.Fprintf(sb, "M<%s>{", v.Type)
		ent := make([]string, 0, len(v.Elems)/2)
		for i := 0; i+1 < len(v.Elems); i += 2 {
			var e strings.Builder
			canon(&e, v.Elems[i], on)
			e.WriteString(":")
			canon(&e, v.Elems[i+1], on)
			ent = append(ent, e.String())
		}
		sort.Strings(ent)
		for _, e := range ent {
			sb.WriteString(e)
			sb.WriteString(",")
		}
		sb.WriteString("}")
	}
}

// CountNodes counts the nodes reachable from v (containers once).
func CountNodes(v *Value) int {
	seen := map[*Value]bool{}
	var walk func(*Value) int
	walk = func(x *Value) int {
		x = x.Deref()
		if x == nil {
			return 0
		}
		if x.Kind < KList {
			return 1
		}
		if seen[x] {
			return 0
		}
		seen[x] = true
		n := 1
		for _, e := range x.Elems {
			n += walk(e)
		}
		return n
	}
	return walk(v)
}
