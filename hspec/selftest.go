package hspec

import (
	"encoding/base64"
	"encoding/hex"
	"fmt"
	"math"
	"math/rand"
	"strings"
)

// hx turns "x57 x90 'abc' Z" style text into bytes: xNN = byte, 'text' = literal, bare letters = ASCII.
// Hx is exported for the workloads.
func Hx(s string) []byte { return hx(s) }

func hx(s string) []byte {
	var out []byte
	for _, tok := range strings.Fields(s) {
		switch {
		case strings.HasPrefix(tok, "x") && len(tok) == 3:
			b, err := hex.DecodeString(tok[1:])
			if err != nil {
				panic(err)
			}
			out = append(out, b...)
		case strings.HasPrefix(tok, "'"):
			out = append(out, []byte(strings.Trim(tok, "'"))...)
		default:
			out = append(out, []byte(tok)...)
		}
	}
	return out
}

type example struct {
	name string
	wire []byte
	want *Value
}

func specExamples() []example {
	car := []string{"color", "model"}
	return []example{
		{"int 0", hx("x90"), Int(0)},
		{"int -16", hx("x80"), Int(-16)},
		{"int 47", hx("xbf"), Int(47)},
		{"int -2048", hx("xc0 x00"), Int(-2048)},
		{"int -256", hx("xc7 x00"), Int(-256)},
		{"int 2047", hx("xcf xff"), Int(2047)},
		{"int -262144", hx("xd0 x00 x00"), Int(-262144)},
		{"int 262143", hx("xd7 xff xff"), Int(262143)},
		{"int 300", hx("I x00 x00 x01 x2c"), Int(300)},
		{"long 0", hx("xe0"), Long(0)},
		{"long -8", hx("xd8"), Long(-8)},
		{"long 15", hx("xef"), Long(15)},
		{"long -2048", hx("xf0 x00"), Long(-2048)},
		{"long -256", hx("xf7 x00"), Long(-256)},
		{"long 2047", hx("xff xff"), Long(2047)},
		{"long -262144", hx("x38 x00 x00"), Long(-262144)},
		{"long 262143", hx("x3f xff xff"), Long(262143)},
		{"long 300 (L)", hx("L x00 x00 x00 x00 x00 x00 x01 x2c"), Long(300)},
		{"long 4-octet", hx("x59 x80 x00 x00 x00"), Long(math.MinInt32)},
		{"double 0", hx("x5b"), Double(0)},
		{"double 1", hx("x5c"), Double(1)},
		{"double -128", hx("x5d x80"), Double(-128)},
		{"double 127", hx("x5d x7f"), Double(127)},
		{"double -32768", hx("x5e x80 x00"), Double(-32768)},
		{"double 32767", hx("x5e x7f xff"), Double(32767)},
		{"double 12.25", hx("D x40 x28 x80 x00 x00 x00 x00 x00"), Double(12.25)},
		{"double float", hx("x5f x41 x44 x00 x00"), Double(12.25)},
		{"true", hx("T"), Bool(true)},
		{"false", hx("F"), Bool(false)},
		{"null", hx("N"), Null()},
		{"date ms", hx("x4a x00 x00 x00 xd0 x4b x92 x84 xb8"), Date(894621091000)},
		{"date min", hx("x4b x00 xe3 x83 x8f"), Date(14910351 * 60000)},
		{"string empty", hx("x00"), String("")},
		{"string hello", hx("x05 hello"), String("hello")},
		{"string 2-byte char", []byte{0x01, 0xc3, 0x83}, String("Ã")},
		{"string chunks", hx("x52 x00 x07 'hello,' x20 x05 world"), String("hello, world")},
		{"string R/S", hx("R x00 x01 a S x00 x05 hello"), String("ahello")},
		{"binary empty", hx("x20"), Binary([]byte{})},
		{"binary 3", hx("x23 x01 x02 x03"), Binary([]byte{1, 2, 3})},
		{"binary B", hx("B x00 x02 x01 x02"), Binary([]byte{1, 2})},
		{"binary A chunks", hx("x41 x00 x01 x09 x21 x08"), Binary([]byte{9, 8})},
		{"binary x34", hx("x34 x02 x07 x08"), Binary([]byte{7, 8})},
		{"typed int array V", hx("V x04 [int x92 x90 x91"), List("[int", Int(0), Int(1))},
		{"untyped variable list", hx("x57 x90 x91 Z"), List("", Int(0), Int(1))},
		{"typed fixed x72", hx("x72 x04 [int x90 x91"), List("[int", Int(0), Int(1))},
		{"untyped fixed x7a", hx("x7a x90 x91"), List("", Int(0), Int(1))},
		{"untyped fixed x58", hx("x58 x92 x90 x91"), List("", Int(0), Int(1))},
		{"typed variable x55", hx("x55 x04 [int x90 x91 Z"), List("[int", Int(0), Int(1))},
		{"sparse array map", hx("H x91 x03 fee xa0 x03 fie xc9 x00 x03 foe Z"),
			Map("", Int(1), String("fee"), Int(16), String("fie"), Int(256), String("foe"))},
		{"map of java object", hx("M x13 com.caucho.test.Car x05 color x0a aquamarine x05 model x06 Beetle x07 mileage I x00 x01 x00 x00 Z"),
			Map("com.caucho.test.Car", String("color"), String("aquamarine"), String("model"), String("Beetle"), String("mileage"), Int(65536))},
		{"object long form", hx("C x0b example.Car x92 x05 color x05 model O x90 x03 red x08 corvette"),
			Object("example.Car", car, String("red"), String("corvette"))},
		{"object short form", hx("C x0b example.Car x92 x05 color x05 model x60 x05 green x05 civic"),
			Object("example.Car", car, String("green"), String("civic"))},
	}
}

// SelfTest runs the reference model against the published examples and
// against itself.  A failure means the trusted base is broken (exit 2).
func SelfTest(seed int64, n int) error {
	strict := CmpOpts{}
	for _, ex := range specExamples() {
		v, _, err := Parse(ex.wire)
		if err != nil {
			return fmt.Errorf("selftest %q: %v", ex.name, err)
		}
		if d := Bisim(ex.want, v, strict); d != "" {
			return fmt.Errorf("selftest %q: %s", ex.name, d)
		}
		// every rendering of the expected value must parse back to it
		en := NewEnum()
		count := 0
		for {
			b, _ := Encode(ex.want, en, EncOpts{AllowMapMEmpty: false})
			w, _, err := Parse(b)
			if err != nil {
				return fmt.Errorf("selftest %q rendering %v (%x): %v", ex.name, en.Vector(), b, err)
			}
			if d := Bisim(ex.want, w, strict); d != "" {
				return fmt.Errorf("selftest %q rendering %v (%x): %s", ex.name, en.Vector(), b, d)
			}
			count++
			if !en.Advance() || count > 3000 {
				break
			}
		}
		// canonical rendering of scalars must reproduce the example bytes' length or shorter
	}
	// streams: two objects sharing one definition, then a ref (the enum example)
	{
		b := hx("C x0d example.Color x91 x04 name x60 x03 RED x60 x05 GREEN x60 x04 BLUE x51 x91")
		p := NewParser(b)
		var vals []*Value
		for p.Pos < len(b) {
			v, err := p.Next()
			if err != nil {
				return fmt.Errorf("selftest enum stream: %v", err)
			}
			vals = append(vals, v)
		}
		if len(vals) != 4 || vals[3].Deref() != vals[1] || vals[1].Elems[0].S != "GREEN" {
			return fmt.Errorf("selftest enum stream: wrong structure")
		}
	}
	// circular list example
	{
		b := hx("C x0a LinkedList x92 x04 head x04 tail x60 x91 x51 x90")
		v, _, err := Parse(b)
		if err != nil {
			return fmt.Errorf("selftest circular: %v", err)
		}
		if v.Elems[1].Deref() != v {
			return fmt.Errorf("selftest circular: ref does not resolve to the object")
		}
	}
	// type reference example
	{
		b := hx("x72 x04 [int x90 x91 x73 x90 x92 x93 x94")
		p := NewParser(b)
		a, err := p.Next()
		if err != nil {
			return err
		}
		c, err := p.Next()
		if err != nil {
			return fmt.Errorf("selftest type ref: %v", err)
		}
		if a.Type != "[int" || c.Type != "[int" || len(c.Elems) != 3 || c.Ann.TypeLiteral {
			return fmt.Errorf("selftest type ref: wrong structure")
		}
	}
	// byte strings produced by a Java peer (quoted in the repository's tests)
	{
		jm, _ := base64.StdEncoding.DecodeString("Qw9oZXNzaWFuLk1lc3NhZ2WSBXRpdGxlA21zZ2ACbTF6QxFoZXNzaWFuLlRyYWNlRGF0YZIDc2VxBGRhdGFh1eJAQw9oZXNzaWFuLlRyYWNlVm+SA2tleQV2YWx1ZWICazECdjFh1eJBYgJrMgJ2Mg==")
		v, _, err := Parse(jm)
		if err != nil {
			return fmt.Errorf("selftest java message: %v", err)
		}
		vo := []string{"key", "value"}
		td := []string{"seq", "data"}
		want := Object("hessian.Message", []string{"title", "msg"}, String("m1"), List("",
			Object("hessian.TraceData", td, Int(123456), Object("hessian.TraceVo", vo, String("k1"), String("v1"))),
			Object("hessian.TraceData", td, Int(123457), Object("hessian.TraceVo", vo, String("k2"), String("v2")))))
		if d := Bisim(want, v, strict); d != "" {
			return fmt.Errorf("selftest java message: %s", d)
		}
		hs, _ := base64.StdEncoding.DecodeString("chFqYXZhLnV0aWwuSGFzaFNldAZjY2NkZGQGYWFhYmJi")
		v, _, err = Parse(hs)
		if err != nil {
			return fmt.Errorf("selftest java hashset: %v", err)
		}
		if d := Bisim(List("java.util.HashSet", String("cccddd"), String("aaabbb")), v, strict); d != "" {
			return fmt.Errorf("selftest java hashset: %s", d)
		}
	}
	// strictness: these must be rejected
	for _, bad := range [][]byte{
		hx("x05 hell"), hx("x90 x90"), hx("x51 x90"), hx("x60"), hx("x57 x90"), hx("H x90 Z"),
		{0x01, 0xc3}, {0x02, 0xc3, 0x83}, hx("x40"), hx("x45"), hx("x47"), hx("x50"), hx("V x04 [int x8f"),
		hx("x73 x90 x90 x90 x90"), hx("O x90"), hx("x58 x8f"),
	} {
		if _, _, err := Parse(bad); err == nil {
			return fmt.Errorf("selftest: malformed input %x accepted", bad)
		}
	}
	// refdec(refenc(A, c)) == A for random values and random choice streams
	r := rand.New(rand.NewSource(seed))
	for i := 0; i < n; i++ {
		a := RandomValue(r, 4)
		b, _ := Encode(a, &RandChooser{R: r, P: 0.5}, EncOpts{})
		w, _, err := Parse(b)
		if err != nil {
			return fmt.Errorf("selftest random #%d %s (%x): %v", i, ShortString(a), b, err)
		}
		if d := Bisim(a, w, strict); d != "" {
			return fmt.Errorf("selftest random #%d %s (%x): %s", i, ShortString(a), b, d)
		}
	}
	return nil
}

var runeTable = []rune{'a', 'Z', '0', ' ', 0x7f, 0x80, 0xe9, 0x7ff, 0x800, 0x4e16, 0xffff, 0x10000, 0x1f600, 0x10ffff}

// RandomString returns a valid UTF-8 string of n code points of mixed widths.
func RandomString(r *rand.Rand, n int) string {
	var sb strings.Builder
	for i := 0; i < n; i++ {
		sb.WriteRune(runeTable[r.Intn(len(runeTable))])
	}
	return sb.String()
}

var interestingInts = []int64{0, 1, -1, -16, -17, 47, 48, -2048, -2049, 2047, 2048, -262144, -262145, 262143, 262144,
	math.MinInt32, math.MaxInt32, -8, -9, 15, 16, math.MinInt32 - 1, math.MaxInt32 + 1, math.MinInt64, math.MaxInt64}

// RandomValue builds a random abstract value (with sharing and cycles).
func RandomValue(r *rand.Rand, depth int) *Value {
	var pool []*Value
	var gen func(d int) *Value
	gen = func(d int) *Value {
		k := r.Intn(14)
		if d <= 0 && k >= 8 {
			k = r.Intn(8)
		}
		switch k {
		case 0:
			return Null()
		case 1:
			return Bool(r.Intn(2) == 0)
		case 2:
			if r.Intn(2) == 0 {
				return Int(int32(interestingInts[r.Intn(len(interestingInts))]))
			}
			return Int(int32(r.Uint32()))
		case 3:
			if r.Intn(2) == 0 {
				return Long(interestingInts[r.Intn(len(interestingInts))])
			}
			return Long(int64(r.Uint64()) >> uint(r.Intn(64)))
		case 4:
			switch r.Intn(5) {
			case 0:
				return Double(float64(r.Intn(70000) - 35000))
			case 1:
				return Double(float64(float32(r.NormFloat64())))
			case 2:
				return Double(math.Float64frombits(r.Uint64()))
			case 3:
				return Double([]float64{0, 1, math.Inf(1), math.Inf(-1), math.NaN(), math.Copysign(0, -1), 0.5}[r.Intn(7)])
			}
			return Double(r.NormFloat64())
		case 5:
			if r.Intn(2) == 0 {
				return Date(int64(r.Intn(100000)) * 60000)
			}
			return Date(int64(r.Uint64()) >> uint(8+r.Intn(40)))
		case 6:
			n := []int{0, 1, 5, 31, 32, 33, 100, 1023, 1024, 1025}[r.Intn(10)]
			if r.Intn(20) == 0 {
				n = 65535 + r.Intn(3)
			}
			return String(RandomString(r, n))
		case 7:
			n := []int{0, 1, 15, 16, 17, 1023, 1024, 4097}[r.Intn(8)]
			b := make([]byte, n)
			r.Read(b)
			return Binary(b)
		case 8, 9:
			n := r.Intn(10)
			t := ""
			if r.Intn(2) == 0 {
				t = []string{"[int", "[string", "[com.x.Y", "java.util.ArrayList"}[r.Intn(4)]
			}
			l := List(t)
			pool = append(pool, l)
			for i := 0; i < n; i++ {
				l.Elems = append(l.Elems, gen(d-1))
			}
			return l
		case 10:
			n := r.Intn(5)
			t := ""
			if r.Intn(3) == 0 {
				t = []string{"java.util.TreeMap", "com.x.M"}[r.Intn(2)]
			}
			m := Map(t)
			pool = append(pool, m)
			for i := 0; i < n; i++ {
				m.Elems = append(m.Elems, Int(int32(i)), gen(d-1))
			}
			return m
		case 11, 12:
			nf := r.Intn(4)
			cls := fmt.Sprintf("com.x.C%d", r.Intn(20))
			fields := make([]string, nf)
			for i := range fields {
				fields[i] = fmt.Sprintf("f%d_%d", nf, i)
			}
			o := Object(cls+fmt.Sprint(nf), fields)
			pool = append(pool, o)
			for i := 0; i < nf; i++ {
				o.Elems = append(o.Elems, gen(d-1))
			}
			return o
		default:
			if len(pool) > 0 {
				return pool[r.Intn(len(pool))] // sharing / cycle
			}
			return Null()
		}
	}
	return gen(depth)
}
