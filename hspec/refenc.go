package hspec

import (
	"encoding/binary"
	"fmt"
	"math"
	"math/rand"
	"unicode/utf8"
)

// Chooser resolves the encoding choices of the reference encoder.
// Choose(point, n) returns a number in [0,n); choice 0 is always the
// canonical (most compact / most common) rendering.
type Chooser interface {
	Choose(point string, n int) int
}

// Canonical always picks choice 0.
type Canonical struct{}

func (Canonical) Choose(string, int) int { return 0 }

// RandChooser picks uniformly at random with probability P of deviating from 0.
type RandChooser struct {
	R *rand.Rand
	P float64
}

func (c *RandChooser) Choose(_ string, n int) int {
	if n <= 1 {
		return 0
	}
	if c.R.Float64() >= c.P {
		return 0
	}
	return c.R.Intn(n)
}

// MaxChooser always picks the last alternative.
type MaxChooser struct{}

func (MaxChooser) Choose(_ string, n int) int { return n - 1 }

// EnumChooser enumerates the whole choice tree depth-first.
// Usage: for e := NewEnum(); ; { enc(e); if !e.Advance() {break} }
type EnumChooser struct {
	vec   []int
	radix []int
	pos   int
}

func NewEnum() *EnumChooser { return &EnumChooser{} }

func (e *EnumChooser) Choose(_ string, n int) int {
	if n <= 1 {
		return 0
	}
	if e.pos < len(e.vec) {
		c := e.vec[e.pos]
		e.radix[e.pos] = n
		if c >= n {
			c = n - 1
		}
		e.pos++
		return c
	}
	e.vec = append(e.vec, 0)
	e.radix = append(e.radix, n)
	e.pos++
	return 0
}

// Advance moves to the next choice vector; false when the space is exhausted.
func (e *EnumChooser) Advance() bool {
	e.vec = e.vec[:e.pos]
	e.radix = e.radix[:e.pos]
	for len(e.vec) > 0 {
		l := len(e.vec) - 1
		if e.vec[l]+1 < e.radix[l] {
			e.vec[l]++
			e.pos = 0
			return true
		}
		e.vec = e.vec[:l]
		e.radix = e.radix[:l]
	}
	e.pos = 0
	return false
}

// Vector returns a copy of the current choice vector.
func (e *EnumChooser) Vector() []int { return append([]int(nil), e.vec[:e.pos]...) }

// ReplayChooser replays a recorded vector (0 beyond its end).
type ReplayChooser struct {
	Vec []int
	pos int
}

func (r *ReplayChooser) Choose(_ string, n int) int {
	if n <= 1 {
		return 0
	}
	c := 0
	if r.pos < len(r.Vec) {
		c = r.Vec[r.pos]
	}
	r.pos++
	if c >= n {
		c = n - 1
	}
	return c
}

// Recorder wraps a chooser and records the vector of non-trivial choices.
type Recorder struct {
	C   Chooser
	Vec []int
}

func (r *Recorder) Choose(p string, n int) int {
	c := r.C.Choose(p, n)
	if n > 1 {
		r.Vec = append(r.Vec, c)
	}
	return c
}

// EncOpts restricts which alternatives the encoder may use.
type EncOpts struct {
	// NoUntype: never offered anyway (types are part of the value).
	// AllowMapMEmpty: an untyped map may be written 'M' + empty type.
	AllowMapMEmpty bool
	// Disable is a set of choice features the encoder must not use
	// (used to keep known-finding productions out of the main stream).
	Disable map[string]bool
}

// Encoder is the reference encoder: one Encoder = one stream.
type Encoder struct {
	floating []*Value // classes whose definition floats in front of some later value
	Out      []byte
	C        Chooser
	O        EncOpts
	Features map[string]bool
	classes  []string       // signature per emitted class definition
	classIdx map[string]int // signature -> index
	types    map[string]int // type string -> index
	ords     map[*Value]int // container -> ordinal
	ntypes   int
}

func NewEncoder(c Chooser, o EncOpts) *Encoder {
	return &Encoder{C: c, O: o, Features: map[string]bool{}, classIdx: map[string]int{}, types: map[string]int{}, ords: map[*Value]int{}}
}

// Encode renders one value on a fresh stream.
func Encode(v *Value, c Chooser, o EncOpts) ([]byte, map[string]bool) {
	e := NewEncoder(c, o)
	e.Value(v)
	return e.Out, e.Features
}

func (e *Encoder) feat(f string) { e.Features[f] = true }

func (e *Encoder) choose(point string, alts []string) string {
	// filter disabled alternatives (alts[0] is canonical and never disabled)
	ok := alts[:1:1]
	for _, a := range alts[1:] {
		if !e.O.Disable[a] {
			ok = append(ok, a)
		}
	}
	c := ok[e.C.Choose(point, len(ok))]
	if c != alts[0] {
		e.feat(c)
	}
	return c
}

func classSig(v *Value) string {
	s := v.Type + "("
	for _, f := range v.Fields {
		s += f + ","
	}
	return s + ")"
}

// Value writes one top-level value (class definitions may be hoisted in front of it).
func (e *Encoder) Value(v *Value) {
	// hoisting: collect classes not yet defined, in first-use order
	var pending []*Value
	seen := map[*Value]bool{}
	sigs := map[string]bool{}
	var walk func(*Value)
	walk = func(x *Value) {
		x = x.Deref()
		if x == nil || x.Kind < KList || seen[x] {
			return
		}
		seen[x] = true
		if x.Kind == KObject {
			sig := classSig(x)
			if _, ok := e.classIdx[sig]; !ok && !sigs[sig] {
				sigs[sig] = true
				pending = append(pending, x)
			}
		}
		for _, c := range x.Elems {
			walk(c)
		}
	}
	walk(v)
	if len(pending) > 0 {
		// first class can be hoisted only trivially (it is in front anyway when the
		// top value is that object); offer the choice for every class.
		for _, x := range pending {
			switch e.choose("def.place", []string{"def.inline", "def.hoist", "def.float"}) {
			case "def.hoist":
				e.classDef(x)
			case "def.float":
				// value ::= class-def value: the definition may stand in front of ANY value
				// between here and the first instance (a list element, a field value, a map key ...)
				e.floating = append(e.floating, x)
			}
		}
	}
	e.value(v)
}

// Define emits the class definition of x now (hoisting), if not emitted yet.
func (e *Encoder) Define(x *Value) int { return e.classDef(x) }

// DefineAgain emits the class definition of x once more (legal: every definition takes the
// next number); later instances of the class use the newest number.
func (e *Encoder) DefineAgain(x *Value) int {
	delete(e.classIdx, classSig(x))
	return e.classDef(x)
}

// FuncChooser decides by choice-point name.
type FuncChooser func(point string, n int) int

func (f FuncChooser) Choose(point string, n int) int {
	if n <= 1 {
		return 0
	}
	c := f(point, n)
	if c < 0 {
		c = 0
	}
	if c >= n {
		c = n - 1
	}
	return c
}

func (e *Encoder) classDef(x *Value) int {
	sig := classSig(x)
	if i, ok := e.classIdx[sig]; ok {
		return i
	}
	e.Out = append(e.Out, 'C')
	e.str(x.Type, e.nameChunked())
	e.int32(int32(len(x.Fields)), false)
	for _, f := range x.Fields {
		e.str(f, e.nameChunked())
	}
	i := len(e.classes)
	e.classes = append(e.classes, sig)
	e.classIdx[sig] = i
	return i
}

func (e *Encoder) value(v *Value) {
	for len(e.floating) > 0 && e.choose("def.float.at", []string{"def.later", "def.here"}) == "def.here" {
		x := e.floating[0]
		e.floating = e.floating[1:]
		e.classDef(x)
	}
	if v == nil {
		e.Out = append(e.Out, 'N')
		return
	}
	switch v.Kind {
	case KNull:
		e.Out = append(e.Out, 'N')
	case KBool:
		if v.B {
			e.Out = append(e.Out, 'T')
		} else {
			e.Out = append(e.Out, 'F')
		}
	case KInt:
		e.int32(int32(v.I), true)
	case KLong:
		e.long(v.I)
	case KDouble:
		e.double(v.F)
	case KDate:
		e.date(v.I)
	case KString:
		e.str(v.S, true)
	case KBinary:
		e.bin(v.Bin)
	case KRef:
		e.ref(v.Ref)
	case KList, KMap, KObject:
		if _, ok := e.ords[v]; ok {
			e.ref(v)
			return
		}
		switch v.Kind {
		case KList:
			e.list(v)
		case KMap:
			e.mapv(v)
		case KObject:
			e.object(v)
		}
	}
}

func (e *Encoder) ref(t *Value) {
	t = t.Deref()
	ord, ok := e.ords[t]
	if !ok {
		panic("refenc: ref to a container that has not been emitted")
	}
	e.Out = append(e.Out, 0x51)
	e.int32(int32(ord), true)
	e.feat("ref")
}

func intForms(v int32) []string {
	var f []string
	if v >= -16 && v <= 47 {
		f = append(f, "int.w1")
	}
	if v >= -2048 && v <= 2047 {
		f = append(f, "int.w2")
	}
	if v >= -262144 && v <= 262143 {
		f = append(f, "int.w3")
	}
	return append(f, "int.w5")
}

func (e *Encoder) int32(v int32, free bool) {
	forms := intForms(v)
	form := forms[0]
	if free {
		form = e.choose("int", forms)
	}
	switch form {
	case "int.w1":
		e.Out = append(e.Out, byte(0x90+v))
	case "int.w2":
		e.Out = append(e.Out, byte(0xc8+(v>>8)), byte(v))
	case "int.w3":
		e.Out = append(e.Out, byte(0xd4+(v>>16)), byte(v>>8), byte(v))
	default:
		e.Out = append(e.Out, 'I', byte(v>>24), byte(v>>16), byte(v>>8), byte(v))
	}
}

func (e *Encoder) long(v int64) {
	var forms []string
	if v >= -8 && v <= 15 {
		forms = append(forms, "long.w1")
	}
	if v >= -2048 && v <= 2047 {
		forms = append(forms, "long.w2")
	}
	if v >= -262144 && v <= 262143 {
		forms = append(forms, "long.w3")
	}
	if v >= math.MinInt32 && v <= math.MaxInt32 {
		forms = append(forms, "long.w5")
	}
	forms = append(forms, "long.w9")
	switch e.choose("long", forms) {
	case "long.w1":
		e.Out = append(e.Out, byte(0xe0+v))
	case "long.w2":
		e.Out = append(e.Out, byte(0xf8+(v>>8)), byte(v))
	case "long.w3":
		e.Out = append(e.Out, byte(0x3c+(v>>16)), byte(v>>8), byte(v))
	case "long.w5":
		e.Out = append(e.Out, 0x59, byte(v>>24), byte(v>>16), byte(v>>8), byte(v))
	default:
		e.Out = binary.BigEndian.AppendUint64(append(e.Out, 'L'), uint64(v))
	}
}

func (e *Encoder) double(f float64) {
	var forms []string
	neg0 := f == 0 && math.Signbit(f)
	if !neg0 && !math.IsNaN(f) {
		if f == 0 || f == 1 {
			forms = append(forms, "dbl.w1")
		}
		if f == math.Trunc(f) && f >= -128 && f <= 127 {
			forms = append(forms, "dbl.w2")
		}
		if f == math.Trunc(f) && f >= -32768 && f <= 32767 {
			forms = append(forms, "dbl.w3")
		}
	}
	if float64(float32(f)) == f && math.Float64bits(float64(float32(f))) == math.Float64bits(f) {
		forms = append(forms, "dbl.w5")
	}
	forms = append(forms, "dbl.w9")
	switch e.choose("double", forms) {
	case "dbl.w1":
		if f == 0 {
			e.Out = append(e.Out, 0x5b)
		} else {
			e.Out = append(e.Out, 0x5c)
		}
	case "dbl.w2":
		e.Out = append(e.Out, 0x5d, byte(int8(f)))
	case "dbl.w3":
		i := int16(f)
		e.Out = append(e.Out, 0x5e, byte(i>>8), byte(i))
	case "dbl.w5":
		e.Out = binary.BigEndian.AppendUint32(append(e.Out, 0x5f), math.Float32bits(float32(f)))
	default:
		e.Out = binary.BigEndian.AppendUint64(append(e.Out, 'D'), math.Float64bits(f))
	}
}

func (e *Encoder) date(ms int64) {
	forms := []string{"date.x4a"}
	if ms%60000 == 0 && ms/60000 >= math.MinInt32 && ms/60000 <= math.MaxInt32 {
		forms = append(forms, "date.x4b")
	}
	if e.choose("date", forms) == "date.x4b" {
		e.Out = binary.BigEndian.AppendUint32(append(e.Out, 0x4b), uint32(int32(ms/60000)))
	} else {
		e.Out = binary.BigEndian.AppendUint64(append(e.Out, 0x4a), uint64(ms))
	}
}

// splits chooses chunk boundaries for n units: returns the lengths of chunks.
func (e *Encoder) splits(point string, n, maxChunk int, free bool) []int {
	var lens []int
	if !free {
		for n > maxChunk {
			lens = append(lens, maxChunk)
			n -= maxChunk
		}
		return append(lens, n)
	}
	if n <= 5 {
		// every gap independently (and optionally an empty leading/trailing chunk)
		cur := 0
		if e.choose(point+".lead0", []string{"chunk.none", "chunk.empty-lead"}) == "chunk.empty-lead" {
			lens = append(lens, 0)
		}
		for i := 0; i < n; i++ {
			cur++
			if i < n-1 && e.choose(point+".gap", []string{"chunk.join", "chunk.split"}) == "chunk.split" {
				lens = append(lens, cur)
				cur = 0
			}
		}
		lens = append(lens, cur)
		if e.choose(point+".tail0", []string{"chunk.none", "chunk.empty-tail"}) == "chunk.empty-tail" {
			lens = append(lens, 0)
		}
		return lens
	}
	k := e.C.Choose(point+".nsplit", 4) // 0..3 extra split points
	rest := n
	if k > 0 {
		e.feat("chunk.split")
	}
	for i := 0; i < k; i++ {
		// a position in [0,rest]: 0 yields an empty chunk
		var c int
		switch e.C.Choose(point+".pos", 4) {
		case 0:
			c = rest / 2
		case 1:
			c = 1
		case 2:
			c = rest - 1
		default:
			c = 0
			e.feat("chunk.empty")
		}
		if c < 0 {
			c = 0
		}
		if c > rest {
			c = rest
		}
		if c > maxChunk {
			c = maxChunk
		}
		lens = append(lens, c)
		rest -= c
	}
	for rest > maxChunk {
		lens = append(lens, maxChunk)
		rest -= maxChunk
	}
	lens = append(lens, rest)
	for i := 1; i < len(lens); i++ {
		if lens[i] > lens[0] {
			e.feat("chunk.grow")
		}
	}
	return lens
}

// nameChunked: a class name, field name or type name is a string of the grammar like any other and
// may be written in chunks
func (e *Encoder) nameChunked() bool {
	return e.choose("name.form", []string{"name.plain", "name.chunked"}) == "name.chunked"
}

func (e *Encoder) str(s string, free bool) {
	n := utf8.RuneCountInString(s)
	lens := e.splits("str", n, 65535, free)
	if len(lens) > 1 {
		for i := 1; i < len(lens); i++ {
			if lens[i] > lens[0] {
				e.feat("chunk.grow")
			}
		}
	}
	b := []byte(s)
	for i, l := range lens {
		// byte extent of l runes
		end := 0
		for k := 0; k < l; k++ {
			_, sz := utf8.DecodeRune(b[end:])
			end += sz
		}
		final := i == len(lens)-1
		if !final {
			e.Out = append(e.Out, 'R', byte(l>>8), byte(l))
			e.feat("str.R")
		} else {
			forms := []string{}
			if l <= 31 {
				forms = append(forms, "str.short")
			}
			if l <= 1023 {
				forms = append(forms, "str.medium")
			}
			forms = append(forms, "str.S")
			f := forms[0]
			if free {
				f = e.choose("str.final", forms)
			}
			switch f {
			case "str.short":
				e.Out = append(e.Out, byte(l))
			case "str.medium":
				e.Out = append(e.Out, byte(0x30+(l>>8)), byte(l))
			default:
				e.Out = append(e.Out, 'S', byte(l>>8), byte(l))
			}
		}
		e.Out = append(e.Out, b[:end]...)
		b = b[end:]
	}
}

func (e *Encoder) bin(b []byte) {
	lens := e.splits("bin", len(b), 65535, true)
	for i, l := range lens {
		final := i == len(lens)-1
		if !final {
			alts := []string{"bin.x41"}
			if len(e.classes) < 3 {
				alts = append(alts, "bin.x62")
			}
			e.feat("bin.nonfinal")
			if e.choose("bin.nonfinal", alts) == "bin.x62" {
				e.Out = append(e.Out, 0x62, byte(l>>8), byte(l))
			} else {
				e.Out = append(e.Out, 0x41, byte(l>>8), byte(l))
			}
		} else {
			forms := []string{}
			if l <= 15 {
				forms = append(forms, "bin.short")
			}
			if l <= 1023 {
				forms = append(forms, "bin.x34")
			}
			forms = append(forms, "bin.B")
			switch e.choose("bin.final", forms) {
			case "bin.short":
				e.Out = append(e.Out, byte(0x20+l))
			case "bin.x34":
				e.Out = append(e.Out, byte(0x34+(l>>8)), byte(l))
			default:
				e.Out = append(e.Out, 'B', byte(l>>8), byte(l))
			}
		}
		e.Out = append(e.Out, b[:l]...)
		b = b[l:]
	}
}

func (e *Encoder) typ(t string) {
	// Every literal type string takes a new slot in the table of types seen so far (that
	// is how the grammar's readers number them: "type ::= string | int", the int indexing
	// the strings read so far); a back-reference uses the latest slot holding the name.
	if i, ok := e.types[t]; ok {
		if e.choose("type", []string{"type.literal", "type.index"}) == "type.index" {
			e.int32(int32(i), true)
			return
		}
		e.feat("type.literal-repeated")
	}
	e.str(t, e.nameChunked())
	e.types[t] = e.ntypes
	e.ntypes++
}

func (e *Encoder) register(v *Value) {
	e.ords[v] = len(e.ords)
}

func (e *Encoder) list(v *Value) {
	n := len(v.Elems)
	e.register(v)
	variable := false
	if v.Type != "" {
		forms := []string{}
		if n <= 7 {
			forms = append(forms, "list.x7t")
		}
		forms = append(forms, "list.V", "list.x55")
		switch e.choose("list.typed", forms) {
		case "list.x7t":
			e.Out = append(e.Out, byte(0x70+n))
			e.typ(v.Type)
		case "list.V":
			e.Out = append(e.Out, 'V')
			e.typ(v.Type)
			e.int32(int32(n), true)
		default:
			e.Out = append(e.Out, 0x55)
			e.typ(v.Type)
			variable = true
		}
	} else {
		forms := []string{}
		if n <= 7 {
			forms = append(forms, "list.x7u")
		}
		forms = append(forms, "list.x58", "list.x57")
		switch e.choose("list.untyped", forms) {
		case "list.x7u":
			e.Out = append(e.Out, byte(0x78+n))
		case "list.x58":
			e.Out = append(e.Out, 0x58)
			e.int32(int32(n), true)
		default:
			e.Out = append(e.Out, 0x57)
			variable = true
		}
	}
	for _, c := range v.Elems {
		e.inner(c)
	}
	if variable {
		e.Out = append(e.Out, 'Z')
	}
}

// inner writes a nested value; a class definition needed by it (and not yet
// emitted) is placed immediately before it (grammar: value ::= class-def value).
func (e *Encoder) inner(c *Value) {
	e.value(c)
}

func (e *Encoder) mapv(v *Value) {
	e.register(v)
	if v.Type != "" || v.MapTyped {
		e.Out = append(e.Out, 'M')
		e.typ(v.Type)
	} else if e.O.AllowMapMEmpty && e.choose("map.head", []string{"map.H", "map.M-empty"}) == "map.M-empty" {
		e.Out = append(e.Out, 'M')
		e.typ("")
	} else {
		e.Out = append(e.Out, 'H')
	}
	for _, c := range v.Elems {
		e.inner(c)
	}
	e.Out = append(e.Out, 'Z')
}

func (e *Encoder) object(v *Value) {
	idx := e.classDef(v) // emits the definition here if it was not hoisted
	e.register(v)
	forms := []string{}
	if idx < 16 {
		forms = append(forms, "obj.short")
	}
	forms = append(forms, "obj.O")
	if e.choose("obj", forms) == "obj.short" {
		e.Out = append(e.Out, byte(0x60+idx))
	} else {
		e.Out = append(e.Out, 'O')
		e.int32(int32(idx), true)
	}
	if len(v.Elems) != len(v.Fields) {
		panic(fmt.Sprintf("refenc: object %s has %d fields, %d values", v.Type, len(v.Fields), len(v.Elems)))
	}
	for _, c := range v.Elems {
		e.inner(c)
	}
}
