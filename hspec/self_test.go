package hspec

import "testing"

func TestSelf(t *testing.T) {
	if err := SelfTest(1, 20000); err != nil {
		t.Fatal(err)
	}
}
